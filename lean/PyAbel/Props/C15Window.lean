/-
C15 — the windowed anisotropy of `Results.Ibeta(window)` (Model/Window.lean).

The moving average is linear, so an anisotropy that is the same at every radius survives any window unchanged — at every
radius where the averaged P₀ does not vanish, the ends of the array (where `mode='nearest'` repeats the end samples)
included; the mask is the *averaged* P₀: radii without data next to radii with data get the β of their neighbourhood, radii
whose whole window is without data get 0; window 1 is the plain ratio.
-/
import PyAbel.Model.Window
import PyAbel.Props.C13
import Mathlib.Algebra.BigOperators.Ring.Finset
import Mathlib.Algebra.Field.Basic
import Mathlib.Tactic.FieldSimp
import Mathlib.Tactic.NormNum

namespace PyAbel.C15Window
open PyAbel PyAbel.Window Finset

variable {K : Type} [Field K]

theorem movavg_eq (w n : ℕ) (x : ℕ → K) (i : ℕ) :
    movavg w n x i = (∑ k ∈ range w, x (clampIdx n ((i : ℤ) + (k : ℤ) - ((w / 2 : ℕ) : ℤ)))) / (w : K) := by
  unfold movavg; rw [C13.sumRange_eq_finset]

/-- the moving average is homogeneous … -/
theorem movavg_smul (w n : ℕ) (b : K) (x : ℕ → K) (i : ℕ) :
    movavg w n (fun j => b * x j) i = b * movavg w n x i := by
  rw [movavg_eq, movavg_eq, ← Finset.mul_sum, mul_div_assoc]

/-- … and additive -/
theorem movavg_add (w n : ℕ) (x y : ℕ → K) (i : ℕ) :
    movavg w n (fun j => x j + y j) i = movavg w n x i + movavg w n y i := by
  rw [movavg_eq, movavg_eq, movavg_eq, Finset.sum_add_distrib, add_div]

/-- a constant profile is its own moving average (any window whose size is not zero in `K`) -/
theorem movavg_const (w n : ℕ) (c : K) (i : ℕ) (hw : (w : K) ≠ 0) : movavg w n (fun _ => c) i = c := by
  rw [movavg_eq, Finset.sum_const, card_range, nsmul_eq_mul]; field_simp

/-- window 1 is the sample itself -/
theorem movavg_one (n : ℕ) (x : ℕ → K) (i : ℕ) (hi : i < n) : movavg 1 n x i = x i := by
  rw [movavg_eq, Finset.sum_range_one]
  have : clampIdx n ((i : ℤ) + ((0 : ℕ) : ℤ) - ((1 / 2 : ℕ) : ℤ)) = i := by
    unfold clampIdx
    have h1 : ¬ ((i : ℤ) + ((0 : ℕ) : ℤ) - ((1 / 2 : ℕ) : ℤ) < 0) := by norm_num
    have h2 : ¬ ((n : ℤ) ≤ (i : ℤ) + ((0 : ℕ) : ℤ) - ((1 / 2 : ℕ) : ℤ)) := by norm_num; omega
    simp only [h1, h2, if_false]; norm_num
  rw [this]; simp

/-- away from the ends the window is the `w` samples `i − ⌊w/2⌋ … i − ⌊w/2⌋ + w − 1` themselves -/
theorem movavg_interior (w n : ℕ) (x : ℕ → K) (i : ℕ) (hlo : w / 2 ≤ i) (hhi : i - w / 2 + w ≤ n) :
    movavg w n x i = (∑ k ∈ range w, x (i - w / 2 + k)) / (w : K) := by
  rw [movavg_eq]; congr 1
  apply Finset.sum_congr rfl; intro k hk
  have hk' := Finset.mem_range.mp hk
  congr 1
  unfold clampIdx
  have h1 : ¬ ((i : ℤ) + (k : ℤ) - ((w / 2 : ℕ) : ℤ) < 0) := by omega
  have h2 : ¬ ((n : ℤ) ≤ (i : ℤ) + (k : ℤ) - ((w / 2 : ℕ) : ℤ)) := by omega
  simp only [h1, h2, if_false]; omega

variable [DecidableEq K]

/-- window ≤ 1: the plain ratio, zero where P₀ vanishes -/
theorem beta_window_one (n : ℕ) (Pn P0 : ℕ → K) (i : ℕ) :
    beta 1 n Pn P0 i = if P0 i = 0 then 0 else Pn i / P0 i := by
  simp [beta]

/-- **a radius-independent anisotropy survives the window**: if Pₙ = b·P₀ at every radius, the windowed β is `b` wherever
the averaged P₀ does not vanish — whatever the window, at the ends of the array too -/
theorem beta_const_anisotropy (w n : ℕ) (Pn P0 : ℕ → K) (b : K) (i : ℕ) (h : ∀ j, Pn j = b * P0 j)
    (hw : 1 < w) (hd : movavg w n P0 i ≠ 0) : beta w n Pn P0 i = b := by
  have e : movavg w n Pn i = b * movavg w n P0 i := by
    rw [show Pn = fun j => b * P0 j from funext h]; exact movavg_smul w n b P0 i
  simp only [beta, show ¬ w ≤ 1 by omega, if_false, hd, e]
  field_simp

/-- the mask is the averaged P₀: where it vanishes β is 0 … -/
theorem beta_zero_of_no_data (w n : ℕ) (Pn P0 : ℕ → K) (i : ℕ) (hw : 1 < w) (hd : movavg w n P0 i = 0) :
    beta w n Pn P0 i = 0 := by
  simp [beta, show ¬ w ≤ 1 by omega, hd]

/-- … and where it does not, β is the ratio of the averages, also at a radius whose own P₀ is zero -/
theorem beta_of_averages (w n : ℕ) (Pn P0 : ℕ → K) (i : ℕ) (hw : 1 < w) (hd : movavg w n P0 i ≠ 0) :
    beta w n Pn P0 i = movavg w n Pn i / movavg w n P0 i := by
  simp [beta, show ¬ w ≤ 1 by omega, hd]

/-! non-vacuity: P₀ = (1, 0, 1, 1), Pₙ = 2·P₀, window 3 at the empty radius 1: β = 2 there (not 0) -/
example : beta 3 4 (fun j => if j = 1 then (0 : ℚ) else 2) (fun j => if j = 1 then (0 : ℚ) else 1) 1 = 2 := by
  apply beta_const_anisotropy 3 4 _ _ 2 1
  · intro j; by_cases hj : j = 1 <;> simp [hj]
  · norm_num
  · simp [movavg, sumRange, clampIdx]; norm_num

end PyAbel.C15Window
