/-
C04 for the two methods that are not stored matrices: the Hansen–Law recursion and the direct quadrature
(`Model/Recursions.lean`, tied to abel/hansenlaw.py and abel/direct.py by the `hansen` / `direct` driver operations).

Linearity needs no property of the transcendental functions: the theorems hold for *any* coefficient tables and any
interpretation of `log`, `rpow`, `sqrt`, `cosh`, `acosh`, `π` on a field — in particular for the coded constants
`h`, `λ` and for any others a future edit might put there.
-/
import PyAbel.Lemmas.Linalg
import PyAbel.Lemmas.RealInst
import PyAbel.Model.Recursions
import Mathlib.Analysis.SpecialFunctions.Trigonometric.Inverse

set_option linter.unusedSectionVars false

namespace PyAbel.C04
open PyAbel

variable {K : Type} [Field K]

/-! ### Hansen–Law -/

/-- the state vector is linear in the driving function, at every step, for every coefficient table -/
theorem hansen_state_linear (c : HansenLaw.Coef K) (cols : ℕ) (a b : K) (d1 d2 : ℕ → K) (t k : ℕ) :
    HansenLaw.state c cols (fun j => a * d1 j + b * d2 j) t k
      = a * HansenLaw.state c cols d1 t k + b * HansenLaw.state c cols d2 t k := by
  induction t generalizing k with
  | zero => simp [HansenLaw.state]
  | succ t ih => simp only [HansenLaw.state, ih]; ring

/-- … hence every output column of the recursion (including the two copied edge columns) -/
theorem hansen_recursion_linear (c : HansenLaw.Coef K) (Kn cols : ℕ) (a b : K) (d1 d2 : ℕ → K) (j : ℕ) :
    HansenLaw.recursion c Kn cols (fun j => a * d1 j + b * d2 j) j
      = a * HansenLaw.recursion c Kn cols d1 j + b * HansenLaw.recursion c Kn cols d2 j := by
  have raw : ∀ col, HansenLaw.aimRaw c Kn cols (fun j => a * d1 j + b * d2 j) col
      = a * HansenLaw.aimRaw c Kn cols d1 col + b * HansenLaw.aimRaw c Kn cols d2 col := by
    intro col
    unfold HansenLaw.aimRaw
    rw [← sumRange_smul, ← sumRange_smul, ← sumRange_add]
    exact sumRange_congr _ _ _ fun k _ => hansen_state_linear c cols a b d1 d2 _ k
  unfold HansenLaw.recursion
  split_ifs
  · simp
  all_goals exact raw _

section
variable [HasPi K]

theorem driveForward_linear (dr a b : K) (x y : ℕ → K) (j : ℕ) :
    HansenLaw.driveForward dr (fun k => a * x k + b * y k) j
      = a * HansenLaw.driveForward dr x j + b * HansenLaw.driveForward dr y j := by
  unfold HansenLaw.driveForward; ring

theorem driveInverse0_linear (cols : ℕ) (dr a b : K) (x y : ℕ → K) (j : ℕ) :
    HansenLaw.driveInverse0 cols dr (fun k => a * x k + b * y k) j
      = a * HansenLaw.driveInverse0 cols dr x j + b * HansenLaw.driveInverse0 cols dr y j := by
  unfold HansenLaw.driveInverse0; split_ifs <;> ring

theorem driveInverse1_linear (cols : ℕ) (dr a b : K) (x y : ℕ → K) (j : ℕ) :
    HansenLaw.driveInverse1 cols dr (fun k => a * x k + b * y k) j
      = a * HansenLaw.driveInverse1 cols dr x j + b * HansenLaw.driveInverse1 cols dr y j := by
  unfold HansenLaw.driveInverse1; split_ifs <;> ring

variable [HasLog K] [HasRpow K]

/-- **`hansenlaw_transform` is linear in the row**, for both directions and both hold orders, every length, every pixel size,
    every value of the model constants -/
theorem hansenlaw_linear (h lam : ℕ → K) (Kn : ℕ) (forward hold1 : Bool) (cols : ℕ) (dr a b : K) (x y : ℕ → K) (j : ℕ) :
    HansenLaw.transform h lam Kn forward hold1 cols dr (fun k => a * x k + b * y k) j
      = a * HansenLaw.transform h lam Kn forward hold1 cols dr x j
        + b * HansenLaw.transform h lam Kn forward hold1 cols dr y j := by
  unfold HansenLaw.transform
  rw [← hansen_recursion_linear]
  congr 1
  funext i
  cases forward <;> cases hold1 <;>
    simp [driveForward_linear, driveInverse0_linear, driveInverse1_linear]

/-- **forward scales with the pixel size**: `forward(dr) = dr · forward(1)` -/
theorem hansenlaw_forward_dr (h lam : ℕ → K) (Kn : ℕ) (hold1 : Bool) (cols : ℕ) (dr : K) (x : ℕ → K) (j : ℕ) :
    HansenLaw.transform h lam Kn true hold1 cols dr x j = dr * HansenLaw.transform h lam Kn true hold1 cols 1 x j := by
  unfold HansenLaw.transform
  simp only [if_true]
  have e : HansenLaw.driveForward dr x = fun i => dr * HansenLaw.driveForward (1 : K) x i + 0 * (0 : K) := by
    funext i; unfold HansenLaw.driveForward; ring
  rw [e, hansen_recursion_linear]; ring

/-- **inverse scales with 1/dr** -/
theorem hansenlaw_inverse_dr (h lam : ℕ → K) (Kn : ℕ) (hold1 : Bool) (cols : ℕ) (dr : K) (hdr : dr ≠ 0) (x : ℕ → K) (j : ℕ) :
    HansenLaw.transform h lam Kn false hold1 cols dr x j = (1 / dr) * HansenLaw.transform h lam Kn false hold1 cols 1 x j := by
  unfold HansenLaw.transform
  cases hold1
  · simp only [Bool.false_eq_true, if_false]
    have e : HansenLaw.driveInverse0 cols dr x = fun i => (1 / dr) * HansenLaw.driveInverse0 cols (1 : K) x i + 0 * (0 : K) := by
      funext i; unfold HansenLaw.driveInverse0; split_ifs <;> field_simp <;> ring
    rw [e, hansen_recursion_linear]; ring
  · simp only [Bool.false_eq_true, if_false, if_true]
    have e : HansenLaw.driveInverse1 cols dr x = fun i => (1 / dr) * HansenLaw.driveInverse1 cols (1 : K) x i + 0 * (0 : K) := by
      funext i; unfold HansenLaw.driveInverse1; split_ifs <;> field_simp <;> ring
    rw [e, hansen_recursion_linear]; ring

end

/-! ### direct -/

theorem direct_gradient_linear (n : ℕ) (a b : K) (x y : ℕ → K) (i : ℕ) :
    Direct.gradient n (fun k => a * x k + b * y k) i = a * Direct.gradient n x i + b * Direct.gradient n y i := by
  unfold Direct.gradient; split_ifs <;> ring

theorem direct_trapz_linear (n : ℕ) (dx a b : K) (x y : ℕ → K) :
    Direct.trapz n dx (fun k => a * x k + b * y k) = a * Direct.trapz n dx x + b * Direct.trapz n dx y := by
  unfold Direct.trapz
  rw [← sumRange_smul, ← sumRange_smul, ← sumRange_add]
  exact sumRange_congr _ _ _ fun k _ => by ring

section
variable [HasSqrt K] [HasCosh K] [HasAcosh K]

/-- the singular quadrature (trapezoid rule, half-cell removal, analytic correction of the singular cell) is linear in the
    integrand samples, for every grid `r`, with or without the correction -/
theorem direct_integral_linear (n : ℕ) (r : ℕ → K) (dx : K) (z corr : Bool) (a b : K) (f g : ℕ → K) (i : ℕ) :
    Direct.integral n r dx z corr (fun k => a * f k + b * g k) i
      = a * Direct.integral n r dx z corr f i + b * Direct.integral n r dx z corr g i := by
  unfold Direct.integral
  simp only []
  have h1 : Direct.trapz n dx (fun j => (a * f j + b * g j) * Direct.isqrt r i j)
      = a * Direct.trapz n dx (fun j => f j * Direct.isqrt r i j) + b * Direct.trapz n dx (fun j => g j * Direct.isqrt r i j) := by
    rw [← direct_trapz_linear]; congr 1; funext j; ring
  have h2 : Direct.trapz n dx (fun j => if j = i ∨ j = i + 1 then (a * f j + b * g j) * Direct.isqrt r i j else 0)
      = a * Direct.trapz n dx (fun j => if j = i ∨ j = i + 1 then f j * Direct.isqrt r i j else 0)
        + b * Direct.trapz n dx (fun j => if j = i ∨ j = i + 1 then g j * Direct.isqrt r i j else 0) := by
    rw [← direct_trapz_linear]; congr 1; funext j; split_ifs <;> ring
  rw [h1, h2]
  split_ifs <;> ring

variable [HasPi K]

/-- **`direct_transform` (python backend) is linear in the row**, both directions, with and without correction -/
theorem direct_linear (forward corr : Bool) (n : ℕ) (dr a b : K) (x y : ℕ → K) (i : ℕ) :
    Direct.transform forward corr n dr (fun k => a * x k + b * y k) i
      = a * Direct.transform forward corr n dr x i + b * Direct.transform forward corr n dr y i := by
  unfold Direct.transform
  simp only []
  rw [← direct_integral_linear]
  congr 1
  funext k
  cases forward
  · simp only [Bool.false_eq_true, if_false, direct_gradient_linear]; ring
  · simp only [if_true]; ring

end

/-! ### direct: scaling with the pixel size (over ℝ; `cosh`, `acosh` may be any functions — only ratios of radii reach them) -/

section
variable [HasCosh ℝ] [HasAcosh ℝ]

theorem direct_trapz_scale (n : ℕ) (dx c : ℝ) (y : ℕ → ℝ) : Direct.trapz n (dx * c) y = c * Direct.trapz n dx y := by
  unfold Direct.trapz
  rw [← sumRange_smul]
  exact sumRange_congr _ _ _ fun k _ => by ring

theorem direct_isqrt_scale (r : ℕ → ℝ) (c : ℝ) (hc : 0 < c) (i j : ℕ) :
    Direct.isqrt (fun k => r k * c) i j = Direct.isqrt r i j / c := by
  unfold Direct.isqrt
  split_ifs
  · simp only [sqrt_real]
    rw [show r j * c * (r j * c) - r i * c * (r i * c) = c ^ 2 * (r j * r j - r i * r i) by ring,
      Real.sqrt_mul (sq_nonneg c), Real.sqrt_sq hc.le]
    rw [div_div, mul_comm]
  · simp

/-- stretching the grid by `c > 0` and the integrand by `a` multiplies the quadrature by `a` -/
theorem direct_integral_scale (n : ℕ) (r : ℕ → ℝ) (dx c a : ℝ) (hc : 0 < c) (z corr : Bool) (f : ℕ → ℝ) (i : ℕ) :
    Direct.integral n (fun k => r k * c) (dx * c) z corr (fun k => a * f k) i
      = a * Direct.integral n r dx z corr f i := by
  unfold Direct.integral
  simp only [direct_isqrt_scale r c hc, direct_trapz_scale]
  have hc' : c ≠ 0 := hc.ne'
  have h1 : c * Direct.trapz n dx (fun j => a * f j * (Direct.isqrt r i j / c))
      = a * Direct.trapz n dx (fun j => f j * Direct.isqrt r i j) := by
    have := direct_trapz_linear n dx (a / c) 0 (fun j => f j * Direct.isqrt r i j) (fun _ => 0)
    simp only [zero_mul, add_zero] at this
    have e : (fun j => a * f j * (Direct.isqrt r i j / c)) = fun j => a / c * (f j * Direct.isqrt r i j) := by
      funext j; field_simp
    rw [e, this]; field_simp
  have h2 : c * Direct.trapz n dx (fun j => if j = i ∨ j = i + 1 then a * f j * (Direct.isqrt r i j / c) else 0)
      = a * Direct.trapz n dx (fun j => if j = i ∨ j = i + 1 then f j * Direct.isqrt r i j else 0) := by
    have := direct_trapz_linear n dx (a / c) 0 (fun j => if j = i ∨ j = i + 1 then f j * Direct.isqrt r i j else 0) (fun _ => 0)
    simp only [zero_mul, add_zero] at this
    have e : (fun j => if j = i ∨ j = i + 1 then a * f j * (Direct.isqrt r i j / c) else 0)
        = fun j => a / c * (if j = i ∨ j = i + 1 then f j * Direct.isqrt r i j else 0) := by
      funext j; split_ifs
      · field_simp
      · simp
    rw [e, this]; field_simp
  rw [h1, h2]
  have hsq : sqrt (r (i + 1) * c * (r (i + 1) * c) - r i * c * (r i * c)) = c * sqrt (r (i + 1) * r (i + 1) - r i * r i) := by
    simp only [sqrt_real]
    rw [show r (i + 1) * c * (r (i + 1) * c) - r i * c * (r i * c) = c ^ 2 * (r (i + 1) * r (i + 1) - r i * r i) by ring,
      Real.sqrt_mul (sq_nonneg c), Real.sqrt_sq hc.le]
  have hratio : r (i + 1) * c / (r i * c) = r (i + 1) / r i := mul_div_mul_right _ _ hc'
  have hfr : (a * f (i + 1) - a * f i) / (r (i + 1) * c - r i * c) = a / c * ((f (i + 1) - f i) / (r (i + 1) - r i)) := by
    by_cases hd : r (i + 1) - r i = 0
    · have hd' : r (i + 1) * c - r i * c = 0 := by rw [← sub_mul, hd, zero_mul]
      rw [hd, hd']; simp
    · have hd' : r (i + 1) * c - r i * c = (r (i + 1) - r i) * c := by ring
      rw [hd']; field_simp
  rw [hsq, hratio, hfr]
  split_ifs <;> field_simp

variable [HasPi ℝ]

/-- **direct forward transform scales with the pixel size**: `forward(dr) = dr · forward(1)` for every `dr > 0` -/
theorem direct_forward_dr (corr : Bool) (n : ℕ) (dr : ℝ) (hdr : 0 < dr) (im : ℕ → ℝ) (i : ℕ) :
    Direct.transform true corr n dr im i = dr * Direct.transform true corr n 1 im i := by
  unfold Direct.transform
  simp only [if_true]
  have := direct_integral_scale n (fun k => (k : ℝ) * 1) 1 dr dr hdr true corr (fun k => im k * (2 * ((k : ℝ) * 1))) i
  rw [show (1 : ℝ) * dr = dr by ring] at this
  have e1 : (fun k : ℕ => (k : ℝ) * 1 * dr) = fun k : ℕ => (k : ℝ) * dr := by funext k; ring
  have e2 : (fun k : ℕ => dr * (im k * (2 * ((k : ℝ) * 1)))) = fun k : ℕ => im k * (2 * ((k : ℝ) * dr)) := by
    funext k; ring
  rw [e1, e2] at this
  exact this

/-- **direct inverse transform scales with 1/dr** -/
theorem direct_inverse_dr (corr : Bool) (n : ℕ) (dr : ℝ) (hdr : 0 < dr) (im : ℕ → ℝ) (i : ℕ) :
    Direct.transform false corr n dr im i = (1 / dr) * Direct.transform false corr n 1 im i := by
  unfold Direct.transform
  simp only [Bool.false_eq_true, if_false]
  have := direct_integral_scale n (fun k => (k : ℝ) * 1) 1 dr (1 / dr) hdr true corr
    (fun k => Direct.gradient n im k / 1 * (-(1 : ℝ) / HasPi.pi)) i
  rw [show (1 : ℝ) * dr = dr by ring] at this
  have e1 : (fun k : ℕ => (k : ℝ) * 1 * dr) = fun k : ℕ => (k : ℝ) * dr := by funext k; ring
  have e2 : (fun k : ℕ => 1 / dr * (Direct.gradient n im k / 1 * (-(1 : ℝ) / HasPi.pi)))
      = fun k : ℕ => Direct.gradient n im k / dr * (-(1 : ℝ) / HasPi.pi) := by
    funext k; field_simp
  rw [e1, e2] at this
  exact this

end

/-! ### Bordas onion peeling (`shift_grid=False`): back substitution with the arcsine shell weights -/

section
variable [HasAsin K]

/-- **`onion_bordas_transform` is linear in the row** (for any weight table, in particular `val1`) -/
theorem bordas_linear (v : ℕ → ℕ → K) (w : ℕ) (dr a b : K) (x y : ℕ → K) (k : ℕ) :
    Bordas.transformWith v w dr (fun m => a * x m + b * y m) k
      = a * Bordas.transformWith v w dr x k + b * Bordas.transformWith v w dr y k := by
  unfold Bordas.transformWith
  simp only []
  have h := backSubstAux_linear v x y a b w w (if k = 0 then 1 else k)
  unfold backSubst
  rw [h]
  ring

/-- **… and scales with 1/dr** -/
theorem bordas_inverse_dr (v : ℕ → ℕ → K) (w : ℕ) (dr : K) (hdr : dr ≠ 0) (x : ℕ → K) (k : ℕ) :
    Bordas.transformWith v w dr x k = (1 / dr) * Bordas.transformWith v w 1 x k := by
  unfold Bordas.transformWith
  simp only []
  field_simp

/-- what the peeling loop computes: with `y_k = out_k · (k+1) · 2dr`, the weights reproduce the data, `V y = row` — the loop
    inverts the upper-triangular shell-weight matrix exactly (any table with non-zero diagonal) -/
theorem bordas_solves (v : ℕ → ℕ → K) (w : ℕ) (hd : ∀ i, i < w → v i i ≠ 0) (htri : ∀ i j, j < i → v i j = 0)
    (x : ℕ → K) (i : ℕ) (hi : i < w) :
    matVec w v (fun j => (backSubst v x w).getD j 0) i = x i :=
  backSubst_correct v x w hd htri i hi

end

/-! the coded weights `val1` over ℝ (`asin` = `Real.arcsin`) are upper triangular with positive diagonal, so the loop's
    result is *the* solution of `val1 · y = row` -/
noncomputable instance : HasAsin ℝ := ⟨Real.arcsin⟩

theorem bordas_val1_tri (i j : ℕ) (h : j < i) : (Bordas.val1 i j : ℝ) = 0 := by
  unfold Bordas.val1; rw [if_neg (by omega)]

theorem bordas_val1_diag_pos (i : ℕ) : 0 < (Bordas.val1 i i : ℝ) := by
  unfold Bordas.val1
  rw [if_pos (le_refl i)]
  show 0 < Real.arcsin (((i + 1 : ℕ) : ℝ) / ((i + 1 : ℕ) : ℝ)) - Real.arcsin ((i : ℝ) / ((i + 1 : ℕ) : ℝ))
  have hpos : (0 : ℝ) < ((i + 1 : ℕ) : ℝ) := by positivity
  rw [div_self hpos.ne']
  have hlt : (i : ℝ) / ((i + 1 : ℕ) : ℝ) < 1 := by
    rw [div_lt_one hpos]; push_cast; linarith
  have hge : (-1 : ℝ) ≤ (i : ℝ) / ((i + 1 : ℕ) : ℝ) := by
    have : (0 : ℝ) ≤ (i : ℝ) / ((i + 1 : ℕ) : ℝ) := by positivity
    linarith
  have := Real.arcsin_lt_arcsin hge hlt (le_refl 1)
  linarith

/-- **Bordas peeling inverts its shell-weight matrix**: for every row and size, `Σ_j val1[i, j] · y_j = row_i` -/
theorem bordas_val1_solves (w : ℕ) (x : ℕ → ℝ) (i : ℕ) (hi : i < w) :
    matVec w (fun i j => (Bordas.val1 i j : ℝ)) (fun j => (backSubst (fun i j => (Bordas.val1 i j : ℝ)) x w).getD j 0) i = x i :=
  bordas_solves _ w (fun i _ => (bordas_val1_diag_pos i).ne') (fun i j h => bordas_val1_tri i j h) x i hi

/-- non-vacuity: a concrete 3-state recursion on 5 columns really depends on the drive -/
example : HansenLaw.recursion (α := ℚ) ⟨fun _ _ => 1 / 2, fun _ _ => 1, fun _ k => k⟩ 3 5 (fun j => j) 2 = 51 / 2 := by
  norm_num [HansenLaw.recursion, HansenLaw.aimRaw, HansenLaw.state, sumRange]

end PyAbel.C04
