/-
C04 for the two methods that are not stored matrices: the Hansen–Law recursion and the direct quadrature
(`Model/Recursions.lean`, tied to abel/hansenlaw.py and abel/direct.py by the `hansen` / `direct` driver operations).

Linearity needs no property of the transcendental functions: the theorems hold for *any* coefficient tables and any
interpretation of `log`, `rpow`, `sqrt`, `cosh`, `acosh`, `π` on a field — in particular for the coded constants
`h`, `λ` and for any others a future edit might put there.
-/
import PyAbel.Lemmas.Linalg
import PyAbel.Model.Recursions

set_option linter.unusedSectionVars false

namespace PyAbel.C04
open PyAbel

variable {K : Type} [Field K]

/-! ### Hansen–Law -/

/-- the state vector is linear in the driving function, at every step, for every coefficient table -/
theorem hansen_state_linear (c : HansenLaw.Coef K) (cols : ℕ) (a b : K) (d1 d2 : ℕ → K) (t k : ℕ) :
    HansenLaw.state c cols (fun j => a * d1 j + b * d2 j) t k
      = a * HansenLaw.state c cols d1 t k + b * HansenLaw.state c cols d2 t k := by
  induction t generalizing k with
  | zero => simp [HansenLaw.state]
  | succ t ih => simp only [HansenLaw.state, ih]; ring

/-- … hence every output column of the recursion (including the two copied edge columns) -/
theorem hansen_recursion_linear (c : HansenLaw.Coef K) (Kn cols : ℕ) (a b : K) (d1 d2 : ℕ → K) (j : ℕ) :
    HansenLaw.recursion c Kn cols (fun j => a * d1 j + b * d2 j) j
      = a * HansenLaw.recursion c Kn cols d1 j + b * HansenLaw.recursion c Kn cols d2 j := by
  have raw : ∀ col, HansenLaw.aimRaw c Kn cols (fun j => a * d1 j + b * d2 j) col
      = a * HansenLaw.aimRaw c Kn cols d1 col + b * HansenLaw.aimRaw c Kn cols d2 col := by
    intro col
    unfold HansenLaw.aimRaw
    rw [← sumRange_smul, ← sumRange_smul, ← sumRange_add]
    exact sumRange_congr _ _ _ fun k _ => hansen_state_linear c cols a b d1 d2 _ k
  unfold HansenLaw.recursion
  split_ifs <;> exact raw _

section
variable [HasPi K]

theorem driveForward_linear (dr a b : K) (x y : ℕ → K) (j : ℕ) :
    HansenLaw.driveForward dr (fun k => a * x k + b * y k) j
      = a * HansenLaw.driveForward dr x j + b * HansenLaw.driveForward dr y j := by
  unfold HansenLaw.driveForward; ring

theorem driveInverse0_linear (cols : ℕ) (dr a b : K) (x y : ℕ → K) (j : ℕ) :
    HansenLaw.driveInverse0 cols dr (fun k => a * x k + b * y k) j
      = a * HansenLaw.driveInverse0 cols dr x j + b * HansenLaw.driveInverse0 cols dr y j := by
  unfold HansenLaw.driveInverse0; split_ifs <;> ring

theorem driveInverse1_linear (cols : ℕ) (dr a b : K) (x y : ℕ → K) (j : ℕ) :
    HansenLaw.driveInverse1 cols dr (fun k => a * x k + b * y k) j
      = a * HansenLaw.driveInverse1 cols dr x j + b * HansenLaw.driveInverse1 cols dr y j := by
  unfold HansenLaw.driveInverse1; split_ifs <;> ring

variable [HasLog K] [HasRpow K]

/-- **`hansenlaw_transform` is linear in the row**, for both directions and both hold orders, every length, every pixel size,
    every value of the model constants -/
theorem hansenlaw_linear (h lam : ℕ → K) (Kn : ℕ) (forward hold1 : Bool) (cols : ℕ) (dr a b : K) (x y : ℕ → K) (j : ℕ) :
    HansenLaw.transform h lam Kn forward hold1 cols dr (fun k => a * x k + b * y k) j
      = a * HansenLaw.transform h lam Kn forward hold1 cols dr x j
        + b * HansenLaw.transform h lam Kn forward hold1 cols dr y j := by
  unfold HansenLaw.transform
  rw [← hansen_recursion_linear]
  congr 1
  funext i
  cases forward <;> cases hold1 <;>
    simp [driveForward_linear, driveInverse0_linear, driveInverse1_linear]

/-- **forward scales with the pixel size**: `forward(dr) = dr · forward(1)` -/
theorem hansenlaw_forward_dr (h lam : ℕ → K) (Kn : ℕ) (hold1 : Bool) (cols : ℕ) (dr : K) (x : ℕ → K) (j : ℕ) :
    HansenLaw.transform h lam Kn true hold1 cols dr x j = dr * HansenLaw.transform h lam Kn true hold1 cols 1 x j := by
  unfold HansenLaw.transform
  simp only [if_true]
  have e : HansenLaw.driveForward dr x = fun i => dr * HansenLaw.driveForward (1 : K) x i + 0 * (0 : K) := by
    funext i; unfold HansenLaw.driveForward; ring
  rw [e, hansen_recursion_linear]; ring

/-- **inverse scales with 1/dr** -/
theorem hansenlaw_inverse_dr (h lam : ℕ → K) (Kn : ℕ) (hold1 : Bool) (cols : ℕ) (dr : K) (hdr : dr ≠ 0) (x : ℕ → K) (j : ℕ) :
    HansenLaw.transform h lam Kn false hold1 cols dr x j = (1 / dr) * HansenLaw.transform h lam Kn false hold1 cols 1 x j := by
  unfold HansenLaw.transform
  cases hold1
  · simp only [Bool.false_eq_true, if_false]
    have e : HansenLaw.driveInverse0 cols dr x = fun i => (1 / dr) * HansenLaw.driveInverse0 cols (1 : K) x i + 0 * (0 : K) := by
      funext i; unfold HansenLaw.driveInverse0; split_ifs <;> field_simp <;> ring
    rw [e, hansen_recursion_linear]; ring
  · simp only [Bool.false_eq_true, if_false, if_true]
    have e : HansenLaw.driveInverse1 cols dr x = fun i => (1 / dr) * HansenLaw.driveInverse1 cols (1 : K) x i + 0 * (0 : K) := by
      funext i; unfold HansenLaw.driveInverse1; split_ifs <;> field_simp <;> ring
    rw [e, hansen_recursion_linear]; ring

end

/-! ### direct -/

theorem direct_gradient_linear (n : ℕ) (a b : K) (x y : ℕ → K) (i : ℕ) :
    Direct.gradient n (fun k => a * x k + b * y k) i = a * Direct.gradient n x i + b * Direct.gradient n y i := by
  unfold Direct.gradient; split_ifs <;> ring

theorem direct_trapz_linear (n : ℕ) (dx a b : K) (x y : ℕ → K) :
    Direct.trapz n dx (fun k => a * x k + b * y k) = a * Direct.trapz n dx x + b * Direct.trapz n dx y := by
  unfold Direct.trapz
  rw [← sumRange_smul, ← sumRange_smul, ← sumRange_add]
  exact sumRange_congr _ _ _ fun k _ => by ring

section
variable [HasSqrt K] [HasCosh K] [HasAcosh K]

/-- the singular quadrature (trapezoid rule, half-cell removal, analytic correction of the singular cell) is linear in the
    integrand samples, for every grid `r`, with or without the correction -/
theorem direct_integral_linear (n : ℕ) (r : ℕ → K) (dx : K) (z corr : Bool) (a b : K) (f g : ℕ → K) (i : ℕ) :
    Direct.integral n r dx z corr (fun k => a * f k + b * g k) i
      = a * Direct.integral n r dx z corr f i + b * Direct.integral n r dx z corr g i := by
  unfold Direct.integral
  simp only []
  have h1 : Direct.trapz n dx (fun j => (a * f j + b * g j) * Direct.isqrt r i j)
      = a * Direct.trapz n dx (fun j => f j * Direct.isqrt r i j) + b * Direct.trapz n dx (fun j => g j * Direct.isqrt r i j) := by
    rw [← direct_trapz_linear]; congr 1; funext j; ring
  have h2 : Direct.trapz n dx (fun j => if j = i ∨ j = i + 1 then (a * f j + b * g j) * Direct.isqrt r i j else 0)
      = a * Direct.trapz n dx (fun j => if j = i ∨ j = i + 1 then f j * Direct.isqrt r i j else 0)
        + b * Direct.trapz n dx (fun j => if j = i ∨ j = i + 1 then g j * Direct.isqrt r i j else 0) := by
    rw [← direct_trapz_linear]; congr 1; funext j; split_ifs <;> ring
  rw [h1, h2]
  split_ifs <;> ring

variable [HasPi K]

/-- **`direct_transform` (python backend) is linear in the row**, both directions, with and without correction -/
theorem direct_linear (forward corr : Bool) (n : ℕ) (dr a b : K) (x y : ℕ → K) (i : ℕ) :
    Direct.transform forward corr n dr (fun k => a * x k + b * y k) i
      = a * Direct.transform forward corr n dr x i + b * Direct.transform forward corr n dr y i := by
  unfold Direct.transform
  simp only []
  rw [← direct_integral_linear]
  congr 1
  funext k
  cases forward
  · simp only [Bool.false_eq_true, if_false, direct_gradient_linear]; ring
  · simp only [if_true]; ring

end

/-- non-vacuity: a concrete 3-state recursion on 5 columns really depends on the drive -/
example : HansenLaw.recursion (α := ℚ) ⟨fun _ _ => 1 / 2, fun _ _ => 1, fun _ k => k⟩ 3 5 (fun j => j) 2 = 51 / 2 := by
  norm_num [HansenLaw.recursion, HansenLaw.aimRaw, HansenLaw.state, sumRange]

end PyAbel.C04
