/-
C20 — a request the library cannot honour fails loudly, never silently substituted.

Model: PyAbel/Model/Dispatch.lean.  The theorems quantify over every request (all methods,
direction classes, shapes, option validity flags).
-/
import PyAbel.Model.Dispatch
import Mathlib.Tactic.SplitIfs

namespace PyAbel.C20
open PyAbel

/-- An inverse operator is only ever the answer to an `inverse` request … -/
theorem inverse_only_for_inverse (r : Request) (m : Method) (h : dispatch r = .inverseOp m) :
    r.dir = .inverse ∧ r.method = some m := by
  obtain ⟨vt, meth, d, oneD, rows, cols, cen, anyq, o⟩ := r
  cases meth with
  | none => simp [dispatch] at h
  | some mm =>
    cases mm <;> cases d <;> simp [dispatch, methodDispatch] at h ⊢ <;>
      (split_ifs at h <;> simp_all)

/-- … and a forward operator only to a `forward` request, by a method that implements it.
    In particular **a forward request is never answered with an inverse transform**. -/
theorem forward_only_for_forward (r : Request) (m : Method) (h : dispatch r = .forwardOp m) :
    r.dir = .forward ∧ r.method = some m ∧ m.implementsForward = true := by
  obtain ⟨vt, meth, d, oneD, rows, cols, cen, anyq, o⟩ := r
  cases meth with
  | none => simp [dispatch] at h
  | some mm =>
    cases mm <;> cases d <;> simp [dispatch, methodDispatch] at h ⊢ <;>
      (split_ifs at h <;> (try (injection h with h; subst h)) <;> simp_all [Method.implementsForward])

theorem forward_never_inverse (r : Request) (hf : r.dir = .forward) (m : Method) :
    dispatch r ≠ .inverseOp m := by
  intro h
  have := (inverse_only_for_inverse r m h).1
  rw [hf] at this
  cases this

/-- A request is honoured iff it is supported; everything else raises. -/
theorem raises_iff_unsupported (r : Request) : dispatch r = .raise ↔ supported r = false := by
  obtain ⟨vt, meth, d, oneD, rows, cols, cen, anyq, ⟨oOK, cOK, sOK, rOK, outOK⟩⟩ := r
  cases meth with
  | none => simp [dispatch, supported]
  | some mm =>
    cases mm <;> cases d <;> cases vt <;>
      simp [dispatch, methodDispatch, supported, Method.implementsForward] <;>
      (first | done | grind)

theorem unsupported_raises (r : Request) (h : supported r = false) : dispatch r = .raise :=
  (raises_iff_unsupported r).2 h

/-! non-vacuity: supported requests exist in each outcome class -/
example : dispatch ⟨true, some .hansenlaw, .forward, false, 5, 7, false, true, ⟨true, true, true, true, true⟩⟩
    = .forwardOp .hansenlaw := by decide
example : dispatch ⟨true, some .linbasex, .forward, false, 7, 7, false, true, ⟨true, true, true, true, true⟩⟩
    = .raise := by decide
example : dispatch ⟨false, some .three_point, .inverse, false, 4, 3, false, true, ⟨true, true, true, true, true⟩⟩
    = .inverseOp .three_point := by decide

end PyAbel.C20
