/-
C20 — a request the library cannot honour fails loudly, never silently substituted.

Model: PyAbel/Model/Dispatch.lean.  The theorems quantify over every request (all methods,
direction classes, shapes, option validity flags).
-/
import PyAbel.Model.Dispatch
import Mathlib.Tactic.SplitIfs

namespace PyAbel.C20
open PyAbel

/-- An inverse operator is only ever the answer to an `inverse` request … -/
theorem inverse_only_for_inverse (r : Request) (m : Method) (h : dispatch r = .inverseOp m) :
    r.dir = .inverse ∧ r.method = some m := by
  obtain ⟨vt, meth, d, oneD, rows, cols, cen, anyq, o⟩ := r
  cases meth with
  | none => simp [dispatch] at h
  | some mm =>
    cases mm <;> cases d <;> simp [dispatch, methodDispatch] at h ⊢ <;>
      (split_ifs at h <;> simp_all)

/-- … and a forward operator only to a `forward` request, by a method that implements it.
    In particular **a forward request is never answered with an inverse transform**. -/
theorem forward_only_for_forward (r : Request) (m : Method) (h : dispatch r = .forwardOp m) :
    r.dir = .forward ∧ r.method = some m ∧ m.implementsForward = true := by
  obtain ⟨vt, meth, d, oneD, rows, cols, cen, anyq, o⟩ := r
  cases meth with
  | none => simp [dispatch] at h
  | some mm =>
    cases mm <;> cases d <;> simp [dispatch, methodDispatch] at h ⊢ <;>
      (split_ifs at h <;> (try (injection h with h; subst h)) <;> simp_all [Method.implementsForward])

theorem forward_never_inverse (r : Request) (hf : r.dir = .forward) (m : Method) :
    dispatch r ≠ .inverseOp m := by
  intro h
  have := (inverse_only_for_inverse r m h).1
  rw [hf] at this
  cases this

/-- A request is honoured iff it is supported; everything else raises. -/
theorem raises_iff_unsupported (r : Request) : dispatch r = .raise ↔ supported r = false := by
  obtain ⟨vt, meth, d, oneD, rows, cols, cen, anyq, ⟨oOK, cOK, sOK, rOK, outOK⟩⟩ := r
  cases meth with
  | none => simp [dispatch, supported]
  | some mm =>
    cases mm <;> cases d <;> cases vt <;>
      simp [dispatch, methodDispatch, supported, Method.implementsForward] <;>
      (first | done | grind)

theorem unsupported_raises (r : Request) (h : supported r = false) : dispatch r = .raise :=
  (raises_iff_unsupported r).2 h

/-! non-vacuity: supported requests exist in each outcome class -/
example : dispatch ⟨true, some .hansenlaw, .forward, false, 5, 7, false, true, ⟨true, true, true, true, true⟩⟩
    = .forwardOp .hansenlaw := by decide
example : dispatch ⟨true, some .linbasex, .forward, false, 7, 7, false, true, ⟨true, true, true, true, true⟩⟩
    = .raise := by decide
example : dispatch ⟨false, some .three_point, .inverse, false, 4, 3, false, true, ⟨true, true, true, true, true⟩⟩
    = .inverseOp .three_point := by decide

/-! ### never substituted, no fallback, irrelevant options -/

/-- **Never substituted**: a supported request is answered by exactly the requested method in
    exactly the requested direction. -/
theorem supported_honoured (r : Request) (h : supported r = true) :
    ∃ m, r.method = some m ∧
      ((r.dir = .inverse ∧ dispatch r = .inverseOp m) ∨
       (r.dir = .forward ∧ m.implementsForward = true ∧ dispatch r = .forwardOp m)) := by
  obtain ⟨vt, meth, d, oneD, rows, cols, cen, anyq, ⟨oOK, cOK, sOK, rOK, outOK⟩⟩ := r
  cases meth with
  | none => simp [supported] at h
  | some mm =>
    refine ⟨mm, rfl, ?_⟩
    cases mm <;> cases d <;> cases vt <;>
      simp [dispatch, methodDispatch, supported, Method.implementsForward] at h ⊢ <;>
      (first | done | grind)

/-- Whatever is returned names the requested method (no fallback to another method). -/
theorem outcome_names_requested_method (r : Request) (m : Method)
    (h : dispatch r = .inverseOp m ∨ dispatch r = .forwardOp m) : r.method = some m := by
  rcases h with h | h
  · exact (inverse_only_for_inverse r m h).2
  · exact (forward_only_for_forward r m h).2.1

/-- The outcome is a function of the method's own shape checks only through the width the method
    receives: two requests that differ only in an option flag the method never consults get the
    same outcome — e.g. `symmetrize_method` is irrelevant outside `abel.Transform`. -/
theorem symmetrize_irrelevant_direct (r : Request) (b : Bool) (h : r.viaTransform = false) :
    dispatch { r with opts := { r.opts with symmetrizeOK := b } } = dispatch r := by
  obtain ⟨vt, meth, d, oneD, rows, cols, cen, anyq, ⟨oOK, cOK, sOK, rOK, outOK⟩⟩ := r
  simp at h; subst h
  cases meth with
  | none => simp [dispatch]
  | some mm => cases mm <;> cases d <;> simp [dispatch, methodDispatch]

/-- Invalidating option names never rescues a request: if a request raises, it still raises
    with every named option invalid. -/
theorem raise_mono_opts (r : Request) (h : dispatch r = .raise) :
    dispatch { r with opts := ⟨false, false, false, false, false⟩ } = .raise := by
  rw [raises_iff_unsupported] at h ⊢
  obtain ⟨vt, meth, d, oneD, rows, cols, cen, anyq, ⟨oOK, cOK, sOK, rOK, outOK⟩⟩ := r
  cases meth with
  | none => simp [supported]
  | some mm =>
    cases mm <;> cases d <;> cases vt <;>
      simp [supported, Method.implementsForward] at h ⊢ <;> (first | done | grind)

example : supported ⟨true, some .rbasex, .forward, false, 5, 7, true, true, ⟨true, true, false, false, true⟩⟩ = true := by decide

end PyAbel.C20
