/-
C09 — every basis projection and operator equals its defining Abel integral.

Proved here (growing): the degree-0 Daun basis (`_bs_daun(n, 0)`) and the onion-peeling weight matrix `W`
(`_bs_onion_peeling`) are, entry by entry and for all indices, the line-of-sight integrals of the rectangular
shell functions they are defined from.  Other families (daun 1-3, basex, rbasex, two/three-point) are tied to their
defining integrals numerically by the check (quadrature oracle), not yet by theorems.
-/
import PyAbel.Lemmas.Abel
import PyAbel.Lemmas.AbelRamp
import PyAbel.Lemmas.RealInst
import PyAbel.Props.C17

namespace PyAbel.C09
open PyAbel Set

/-- the rectangular (degree 0) basis function of pixel `j`: 1 on `[j − ½, j + ½)`, restricted to `r ≥ 0` -/
noncomputable def rect (j : ℕ) : ℝ → ℝ := indicator (Ico (max 0 ((j : ℝ) - 1 / 2)) ((j : ℝ) + 1 / 2)) 1

/-- **Daun degree 0**: `A[j, i]` is the Abel integral of the `j`-th rectangular function at pixel `i`
    (all `i`, `j`; units of the pixel size) -/
theorem daun0_eq_abel (j i : ℕ) : (daun0 j i : ℝ) = Abel (rect j) i := by
  unfold rect
  rw [abel_shell _ _ _ (le_max_left _ _) (by
    apply max_le <;> [positivity; linarith])]
  unfold daun0
  have hj : (0 : ℝ) ≤ j := Nat.cast_nonneg j
  have hi : (0 : ℝ) ≤ i := Nat.cast_nonneg i
  by_cases hlt : j < i
  · -- pixel beyond the shell: both half-chords vanish
    simp only [hlt, if_true]
    have h1 : ((j : ℝ) + 1 / 2) ^ 2 - (i : ℝ) ^ 2 ≤ 0 := by
      have : (j : ℝ) + 1 ≤ i := by exact_mod_cast hlt
      nlinarith
    have h2 : (max 0 ((j : ℝ) - 1 / 2)) ^ 2 - (i : ℝ) ^ 2 ≤ 0 := by
      have : (j : ℝ) + 1 ≤ i := by exact_mod_cast hlt
      have hm : max 0 ((j : ℝ) - 1 / 2) ≤ (j : ℝ) + 1 / 2 := by apply max_le <;> linarith
      have hm0 : 0 ≤ max 0 ((j : ℝ) - 1 / 2) := le_max_left _ _
      nlinarith
    rw [hc_of_nonpos h1, hc_of_nonpos h2]; ring
  · simp only [hlt, if_false, sqrt_real]
    have hle : (i : ℝ) ≤ j := by exact_mod_cast Nat.le_of_not_lt hlt
    have hb : (0 : ℝ) ≤ ((j : ℝ) + 1 / 2) ^ 2 - (i : ℝ) ^ 2 := by nlinarith
    have eb : ((2 * j + 1 : ℕ) : ℝ) / ((2 : ℕ) : ℝ) * (((2 * j + 1 : ℕ) : ℝ) / ((2 : ℕ) : ℝ)) - ((i ^ 2 : ℕ) : ℝ)
        = ((j : ℝ) + 1 / 2) ^ 2 - (i : ℝ) ^ 2 := by push_cast; ring
    by_cases hij : i = j
    · subst hij
      simp only [if_true]
      rw [eb, hc_of_nonneg hb]
      -- inner radius lies inside pixel i: its half-chord is zero
      have h2 : (max 0 ((i : ℝ) - 1 / 2)) ^ 2 - (i : ℝ) ^ 2 ≤ 0 := by
        rcases le_total ((i : ℝ) - 1 / 2) 0 with h | h
        · rw [max_eq_left h]; nlinarith
        · rw [max_eq_right h]; nlinarith
      rw [hc_of_nonpos h2]; push_cast; ring
    · simp only [hij, if_false]
      have hlt' : i < j := lt_of_le_of_ne (Nat.le_of_not_lt hlt) hij
      have h1 : (i : ℝ) + 1 ≤ j := by exact_mod_cast hlt'
      have hpos : (0 : ℝ) ≤ (j : ℝ) - 1 / 2 := by linarith
      rw [max_eq_right hpos]
      have ha : (0 : ℝ) ≤ ((j : ℝ) - 1 / 2) ^ 2 - (i : ℝ) ^ 2 := by nlinarith
      have ea : ((2 * j - 1 : ℕ) : ℝ) / ((2 : ℕ) : ℝ) * (((2 * j - 1 : ℕ) : ℝ) / ((2 : ℕ) : ℝ)) - ((i ^ 2 : ℕ) : ℝ)
          = ((j : ℝ) - 1 / 2) ^ 2 - (i : ℝ) ^ 2 := by
        have : 1 ≤ 2 * j := by omega
        push_cast [Nat.cast_sub this]; ring
      rw [eb, ea, hc_of_nonneg hb, hc_of_nonneg ha]; push_cast; ring

/-- **Onion peeling**: `W[i, j]` (Dasch Eq. (11)) is the Abel integral of the `j`-th shell at pixel `i`;
    the deconvolution operator is `D = W⁻¹`, the exact inverse of that projection for piecewise-constant data. -/
theorem onionW_eq_abel (i j : ℕ) : (onionW i j : ℝ) = Abel (rect j) i := by
  rw [← C17.daun_default_eq_onion_peeling_matrix, daun0_eq_abel]

/-- the unprojected degree-0 basis function is the documented rectangle: 1 on `[j − ½, j + ½)`, 0 elsewhere (`r ≥ 0`) -/
theorem rect_formula (j : ℕ) (r : ℝ) (hr : 0 ≤ r) :
    rect j r = if (j : ℝ) - 1 / 2 ≤ r ∧ r < (j : ℝ) + 1 / 2 then 1 else 0 := by
  unfold rect
  by_cases h : (j : ℝ) - 1 / 2 ≤ r ∧ r < (j : ℝ) + 1 / 2
  · rw [if_pos h, indicator_of_mem]
    · rfl
    · exact ⟨max_le hr h.1, h.2⟩
  · rw [if_neg h, indicator_of_notMem]
    intro hm
    exact h ⟨le_trans (le_max_right _ _) hm.1, hm.2⟩

/-! ### degree 1: the projected "hat" functions -/

/-- the piecewise-linear (degree 1) basis function of pixel `j`: the triangle of half-width 1 centred at `j` -/
noncomputable def hat (j : ℕ) (r : ℝ) : ℝ := max 0 (1 - |r - j|)

/-- a hat is the second difference of ramps -/
theorem hat_eq_ramps (j : ℕ) (r : ℝ) :
    hat j r = ramp ((j : ℝ) + 1) r - 2 * ramp (j : ℝ) r + ramp ((j : ℝ) - 1) r := by
  unfold hat ramp
  rcases le_total r ((j : ℝ) - 1) with h1 | h1
  · have e : |r - j| = j - r := by rw [abs_of_nonpos (by linarith)]; ring
    rw [e, max_eq_left (by linarith), max_eq_right (by linarith), max_eq_right (by linarith), max_eq_right (by linarith)]
    ring
  · rcases le_total r (j : ℝ) with h2 | h2
    · have e : |r - j| = j - r := by rw [abs_of_nonpos (by linarith)]; ring
      rw [e, max_eq_right (by linarith), max_eq_right (by linarith), max_eq_right (by linarith), max_eq_left (by linarith)]
      ring
    · rcases le_total r ((j : ℝ) + 1) with h3 | h3
      · rw [abs_of_nonneg (by linarith), max_eq_right (by linarith), max_eq_right (by linarith), max_eq_left (by linarith),
          max_eq_left (by linarith)]
        ring
      · rw [abs_of_nonneg (by linarith), max_eq_left (by linarith), max_eq_left (by linarith), max_eq_left (by linarith),
          max_eq_left (by linarith)]
        ring

theorem hat_zero_eq_ramp (r : ℝ) (hr : 0 ≤ r) : hat 0 r = ramp 1 r := by
  unfold hat ramp
  rw [Nat.cast_zero, sub_zero, abs_of_nonneg hr]

/-- the coded antiderivative `P(R)[i] = y R − x² ln(y + R)` plus `x² ln x` is the Abel transform of the ramp `(R − r)₊` -/
theorem abel_ramp_nat (R i : ℕ) :
    Abel (ramp (R : ℝ)) i = if i < R then (daun1P R i : ℝ) + x2logx i else 0 := by
  rw [abel_ramp _ _ (Nat.cast_nonneg R) (Nat.cast_nonneg i)]
  have hiff : ((i : ℝ) < (R : ℝ)) ↔ i < R := Nat.cast_lt
  by_cases h : i < R
  · rw [if_pos (hiff.mpr h), if_pos h]
    unfold daun1P x2logx
    simp only [sqrt_real, log_real]
    by_cases h0 : i = 0
    · subst h0; simp
    · rw [if_neg h0]; push_cast; ring
  · rw [if_neg (fun hh => h (hiff.mp hh)), if_neg h]

/-- **Daun degree 1**: `A[j, i]` is the Abel integral of the `j`-th hat function at pixel `i`, for all `i`, `j` -/
theorem daun1_eq_abel (j i : ℕ) : (daun1 j i : ℝ) = Abel (hat j) i := by
  rcases Nat.eq_zero_or_pos j with hj | hj
  · subst hj
    rw [abel_congr_nonneg (i : ℝ) (g := ramp 1) (fun r hr => hat_zero_eq_ramp r hr)]
    have := abel_ramp_nat 1 i
    rw [Nat.cast_one] at this
    rw [this]
    unfold daun1
    by_cases h0 : i = 0
    · subst h0; simp [x2logx]
    · have : ¬ i < 1 := by omega
      simp [this, h0, show ¬ i ≤ 0 by omega]
  · have hcast : ((j - 1 : ℕ) : ℝ) = (j : ℝ) - 1 := by rw [Nat.cast_sub hj]; simp
    have hcast1 : ((j + 1 : ℕ) : ℝ) = (j : ℝ) + 1 := by push_cast; ring
    have e : ∀ r, 0 ≤ r → hat j r
        = (ramp ((j + 1 : ℕ) : ℝ) r - 2 * ramp ((j : ℕ) : ℝ) r) + ramp ((j - 1 : ℕ) : ℝ) r := by
      intro r _; rw [hcast, hcast1]; exact hat_eq_ramps j r
    rw [abel_congr_nonneg (i : ℝ) e]
    have i1 := losInt_ramp ((j + 1 : ℕ) : ℝ) i (Nat.cast_nonneg _)
    have i2 := (losInt_ramp ((j : ℕ) : ℝ) i (Nat.cast_nonneg _)).const_mul 2
    have i3 := losInt_ramp ((j - 1 : ℕ) : ℝ) i (Nat.cast_nonneg _)
    have i12 : LosInt (fun r => ramp ((j + 1 : ℕ) : ℝ) r - 2 * ramp ((j : ℕ) : ℝ) r) i := i1.sub i2
    rw [abel_add i12 i3, abel_sub i1 i2, abel_const_mul, abel_ramp_nat, abel_ramp_nat, abel_ramp_nat]
    unfold daun1
    rcases Nat.lt_trichotomy i j with hlt | heq | hgt
    · by_cases h1 : i + 1 = j
      · have a1 : i < j + 1 := by omega
        have a3 : ¬ i < j - 1 := by omega
        have a4 : ¬ i + 1 < j := by omega
        have a5 : j - 1 = i := by omega
        simp [a1, hlt, a3, a4, h1, hj, a5, hlt.le, hlt.ne]
        ring
      · have a1 : i < j + 1 := by omega
        have a3 : i < j - 1 := by omega
        have a4 : i + 1 < j := by omega
        simp [a1, hlt, a3, a4, h1, hj, hlt.le, hlt.ne]
        ring
    · subst heq
      have a1 : i < i + 1 := by omega
      have a3 : ¬ i < i - 1 := by omega
      simp [a1, a3, hj]
    · have a1 : ¬ i < j + 1 := by omega
      have a2 : ¬ i < j := by omega
      have a3 : ¬ i < j - 1 := by omega
      have a4 : ¬ i ≤ j := by omega
      have a5 : ¬ i = j := by omega
      have a6 : ¬ i + 1 < j := by omega
      have a7 : ¬ i + 1 = j := by omega
      simp [a1, a2, a3, a4, a5, a6, a7]

/-! non-vacuity: the diagonal entry of the first off-axis pixel, W[1,1] = √5, is 2·√(1.5² − 1²) -/
example : Abel (rect 1) 1 = 2 * (hc ((3 / 2 : ℝ) ^ 2 - 1 ^ 2) - hc ((1 / 2 : ℝ) ^ 2 - 1 ^ 2)) := by
  unfold rect
  rw [abel_shell _ _ _ (le_max_left _ _) (by norm_num)]
  norm_num

/-! non-vacuity: on the axis the unit ramp projects to 1 (chord 1, mean height ½, both sides) -/
example : Abel (ramp 1) 0 = 1 := by
  rw [abel_ramp 1 0 (by norm_num) (le_refl 0)]; norm_num

end PyAbel.C09
