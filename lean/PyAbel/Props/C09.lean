/-
C09 — every basis projection and operator equals its defining Abel integral.

Proved here (growing): the degree-0 Daun basis (`_bs_daun(n, 0)`) and the onion-peeling weight matrix `W`
(`_bs_onion_peeling`) are, entry by entry and for all indices, the line-of-sight integrals of the rectangular
shell functions they are defined from.  Other families (daun 1-3, basex, rbasex, two/three-point) are tied to their
defining integrals numerically by the check (quadrature oracle), not yet by theorems.
-/
import PyAbel.Lemmas.Abel
import PyAbel.Lemmas.AbelRamp
import PyAbel.Lemmas.RealInst
import PyAbel.Props.C17

namespace PyAbel.C09
open PyAbel Set

/-- the rectangular (degree 0) basis function of pixel `j`: 1 on `[j − ½, j + ½)`, restricted to `r ≥ 0` -/
noncomputable def rect (j : ℕ) : ℝ → ℝ := indicator (Ico (max 0 ((j : ℝ) - 1 / 2)) ((j : ℝ) + 1 / 2)) 1

/-- **Daun degree 0**: `A[j, i]` is the Abel integral of the `j`-th rectangular function at pixel `i`
    (all `i`, `j`; units of the pixel size) -/
theorem daun0_eq_abel (j i : ℕ) : (daun0 j i : ℝ) = Abel (rect j) i := by
  unfold rect
  rw [abel_shell _ _ _ (le_max_left _ _) (by
    apply max_le <;> [positivity; linarith])]
  unfold daun0
  have hj : (0 : ℝ) ≤ j := Nat.cast_nonneg j
  have hi : (0 : ℝ) ≤ i := Nat.cast_nonneg i
  by_cases hlt : j < i
  · -- pixel beyond the shell: both half-chords vanish
    simp only [hlt, if_true]
    have h1 : ((j : ℝ) + 1 / 2) ^ 2 - (i : ℝ) ^ 2 ≤ 0 := by
      have : (j : ℝ) + 1 ≤ i := by exact_mod_cast hlt
      nlinarith
    have h2 : (max 0 ((j : ℝ) - 1 / 2)) ^ 2 - (i : ℝ) ^ 2 ≤ 0 := by
      have : (j : ℝ) + 1 ≤ i := by exact_mod_cast hlt
      have hm : max 0 ((j : ℝ) - 1 / 2) ≤ (j : ℝ) + 1 / 2 := by apply max_le <;> linarith
      have hm0 : 0 ≤ max 0 ((j : ℝ) - 1 / 2) := le_max_left _ _
      nlinarith
    rw [hc_of_nonpos h1, hc_of_nonpos h2]; ring
  · simp only [hlt, if_false, sqrt_real]
    have hle : (i : ℝ) ≤ j := by exact_mod_cast Nat.le_of_not_lt hlt
    have hb : (0 : ℝ) ≤ ((j : ℝ) + 1 / 2) ^ 2 - (i : ℝ) ^ 2 := by nlinarith
    have eb : ((2 * j + 1 : ℕ) : ℝ) / ((2 : ℕ) : ℝ) * (((2 * j + 1 : ℕ) : ℝ) / ((2 : ℕ) : ℝ)) - ((i ^ 2 : ℕ) : ℝ)
        = ((j : ℝ) + 1 / 2) ^ 2 - (i : ℝ) ^ 2 := by push_cast; ring
    by_cases hij : i = j
    · subst hij
      simp only [if_true]
      rw [eb, hc_of_nonneg hb]
      -- inner radius lies inside pixel i: its half-chord is zero
      have h2 : (max 0 ((i : ℝ) - 1 / 2)) ^ 2 - (i : ℝ) ^ 2 ≤ 0 := by
        rcases le_total ((i : ℝ) - 1 / 2) 0 with h | h
        · rw [max_eq_left h]; nlinarith
        · rw [max_eq_right h]; nlinarith
      rw [hc_of_nonpos h2]; push_cast; ring
    · simp only [hij, if_false]
      have hlt' : i < j := lt_of_le_of_ne (Nat.le_of_not_lt hlt) hij
      have h1 : (i : ℝ) + 1 ≤ j := by exact_mod_cast hlt'
      have hpos : (0 : ℝ) ≤ (j : ℝ) - 1 / 2 := by linarith
      rw [max_eq_right hpos]
      have ha : (0 : ℝ) ≤ ((j : ℝ) - 1 / 2) ^ 2 - (i : ℝ) ^ 2 := by nlinarith
      have ea : ((2 * j - 1 : ℕ) : ℝ) / ((2 : ℕ) : ℝ) * (((2 * j - 1 : ℕ) : ℝ) / ((2 : ℕ) : ℝ)) - ((i ^ 2 : ℕ) : ℝ)
          = ((j : ℝ) - 1 / 2) ^ 2 - (i : ℝ) ^ 2 := by
        have : 1 ≤ 2 * j := by omega
        push_cast [Nat.cast_sub this]; ring
      rw [eb, ea, hc_of_nonneg hb, hc_of_nonneg ha]; push_cast; ring

/-- **Onion peeling**: `W[i, j]` (Dasch Eq. (11)) is the Abel integral of the `j`-th shell at pixel `i`;
    the deconvolution operator is `D = W⁻¹`, the exact inverse of that projection for piecewise-constant data. -/
theorem onionW_eq_abel (i j : ℕ) : (onionW i j : ℝ) = Abel (rect j) i := by
  rw [← C17.daun_default_eq_onion_peeling_matrix, daun0_eq_abel]

/-- the unprojected degree-0 basis function is the documented rectangle: 1 on `[j − ½, j + ½)`, 0 elsewhere (`r ≥ 0`) -/
theorem rect_formula (j : ℕ) (r : ℝ) (hr : 0 ≤ r) :
    rect j r = if (j : ℝ) - 1 / 2 ≤ r ∧ r < (j : ℝ) + 1 / 2 then 1 else 0 := by
  unfold rect
  by_cases h : (j : ℝ) - 1 / 2 ≤ r ∧ r < (j : ℝ) + 1 / 2
  · rw [if_pos h, indicator_of_mem]
    · rfl
    · exact ⟨max_le hr h.1, h.2⟩
  · rw [if_neg h, indicator_of_notMem]
    intro hm
    exact h ⟨le_trans (le_max_right _ _) hm.1, hm.2⟩

/-! ### degree 1: the projected "hat" functions -/

/-- the piecewise-linear (degree 1) basis function of pixel `j`: the triangle of half-width 1 centred at `j` -/
noncomputable def hat (j : ℕ) (r : ℝ) : ℝ := max 0 (1 - |r - j|)

/-- a hat is the second difference of ramps -/
theorem hat_eq_ramps (j : ℕ) (r : ℝ) :
    hat j r = ramp ((j : ℝ) + 1) r - 2 * ramp (j : ℝ) r + ramp ((j : ℝ) - 1) r := by
  unfold hat ramp
  rcases le_total r ((j : ℝ) - 1) with h1 | h1
  · have e : |r - j| = j - r := by rw [abs_of_nonpos (by linarith)]; ring
    rw [e, max_eq_left (by linarith), max_eq_right (by linarith), max_eq_right (by linarith), max_eq_right (by linarith)]
    ring
  · rcases le_total r (j : ℝ) with h2 | h2
    · have e : |r - j| = j - r := by rw [abs_of_nonpos (by linarith)]; ring
      rw [e, max_eq_right (by linarith), max_eq_right (by linarith), max_eq_right (by linarith), max_eq_left (by linarith)]
      ring
    · rcases le_total r ((j : ℝ) + 1) with h3 | h3
      · rw [abs_of_nonneg (by linarith), max_eq_right (by linarith), max_eq_right (by linarith), max_eq_left (by linarith),
          max_eq_left (by linarith)]
        ring
      · rw [abs_of_nonneg (by linarith), max_eq_left (by linarith), max_eq_left (by linarith), max_eq_left (by linarith),
          max_eq_left (by linarith)]
        ring

theorem hat_zero_eq_ramp (r : ℝ) (hr : 0 ≤ r) : hat 0 r = ramp 1 r := by
  unfold hat ramp
  rw [Nat.cast_zero, sub_zero, abs_of_nonneg hr]

/-- the coded antiderivative `P(R)[i] = y R − x² ln(y + R)` plus `x² ln x` is the Abel transform of the ramp `(R − r)₊` -/
theorem abel_ramp_nat (R i : ℕ) :
    Abel (ramp (R : ℝ)) i = if i < R then (daun1P R i : ℝ) + x2logx i else 0 := by
  rw [abel_ramp _ _ (Nat.cast_nonneg R) (Nat.cast_nonneg i)]
  have hiff : ((i : ℝ) < (R : ℝ)) ↔ i < R := Nat.cast_lt
  by_cases h : i < R
  · rw [if_pos (hiff.mpr h), if_pos h]
    unfold daun1P x2logx
    simp only [sqrt_real, log_real]
    by_cases h0 : i = 0
    · subst h0; simp
    · rw [if_neg h0]; push_cast; ring
  · rw [if_neg (fun hh => h (hiff.mp hh)), if_neg h]

/-- **Daun degree 1**: `A[j, i]` is the Abel integral of the `j`-th hat function at pixel `i`, for all `i`, `j` -/
theorem daun1_eq_abel (j i : ℕ) : (daun1 j i : ℝ) = Abel (hat j) i := by
  rcases Nat.eq_zero_or_pos j with hj | hj
  · subst hj
    rw [abel_congr_nonneg (i : ℝ) (g := ramp 1) (fun r hr => hat_zero_eq_ramp r hr)]
    have := abel_ramp_nat 1 i
    rw [Nat.cast_one] at this
    rw [this]
    unfold daun1
    by_cases h0 : i = 0
    · subst h0; simp [x2logx]
    · have : ¬ i < 1 := by omega
      simp [this, h0, show ¬ i ≤ 0 by omega]
  · have hcast : ((j - 1 : ℕ) : ℝ) = (j : ℝ) - 1 := by rw [Nat.cast_sub hj]; simp
    have hcast1 : ((j + 1 : ℕ) : ℝ) = (j : ℝ) + 1 := by push_cast; ring
    have e : ∀ r, 0 ≤ r → hat j r
        = (ramp ((j + 1 : ℕ) : ℝ) r - 2 * ramp ((j : ℕ) : ℝ) r) + ramp ((j - 1 : ℕ) : ℝ) r := by
      intro r _; rw [hcast, hcast1]; exact hat_eq_ramps j r
    rw [abel_congr_nonneg (i : ℝ) e]
    have i1 := losInt_ramp ((j + 1 : ℕ) : ℝ) i (Nat.cast_nonneg _)
    have i2 := (losInt_ramp ((j : ℕ) : ℝ) i (Nat.cast_nonneg _)).const_mul 2
    have i3 := losInt_ramp ((j - 1 : ℕ) : ℝ) i (Nat.cast_nonneg _)
    have i12 : LosInt (fun r => ramp ((j + 1 : ℕ) : ℝ) r - 2 * ramp ((j : ℕ) : ℝ) r) i := i1.sub i2
    rw [abel_add i12 i3, abel_sub i1 i2, abel_const_mul, abel_ramp_nat, abel_ramp_nat, abel_ramp_nat]
    unfold daun1
    rcases Nat.lt_trichotomy i j with hlt | heq | hgt
    · by_cases h1 : i + 1 = j
      · have a1 : i < j + 1 := by omega
        have a3 : ¬ i < j - 1 := by omega
        have a4 : ¬ i + 1 < j := by omega
        have a5 : j - 1 = i := by omega
        simp [a1, hlt, a3, a4, h1, hj, a5, hlt.le, hlt.ne]
        ring
      · have a1 : i < j + 1 := by omega
        have a3 : i < j - 1 := by omega
        have a4 : i + 1 < j := by omega
        simp [a1, hlt, a3, a4, h1, hj, hlt.le, hlt.ne]
        ring
    · subst heq
      have a1 : i < i + 1 := by omega
      have a3 : ¬ i < i - 1 := by omega
      simp [a1, a3, hj]
    · have a1 : ¬ i < j + 1 := by omega
      have a2 : ¬ i < j := by omega
      have a3 : ¬ i < j - 1 := by omega
      have a4 : ¬ i ≤ j := by omega
      have a5 : ¬ i = j := by omega
      have a6 : ¬ i + 1 < j := by omega
      have a7 : ¬ i + 1 = j := by omega
      simp [a1, a2, a3, a4, a5, a6, a7]

/-! non-vacuity: the diagonal entry of the first off-axis pixel, W[1,1] = √5, is 2·√(1.5² − 1²) -/
example : Abel (rect 1) 1 = 2 * (hc ((3 / 2 : ℝ) ^ 2 - 1 ^ 2) - hc ((1 / 2 : ℝ) ^ 2 - 1 ^ 2)) := by
  unfold rect
  rw [abel_shell _ _ _ (le_max_left _ _) (by norm_num)]
  norm_num

/-! ### degree 2: the projected quadratic B-splines -/

/-- the quadratic (degree 2) basis function of pixel `j`: `1 − 2d²` for `|d| ≤ ½`, `2(|d| − 1)²` for `½ < |d| ≤ 1`, `d = r − j` -/
noncomputable def bspline2 (j : ℕ) (r : ℝ) : ℝ :=
  if |r - j| ≤ 1 / 2 then 1 - 2 * (r - j) ^ 2 else if |r - j| ≤ 1 then 2 * (|r - j| - 1) ^ 2 else 0

/-- a quadratic B-spline is a combination of four quadratic ramps (truncated powers at the knots j ± 1, j ± ½) -/
theorem bspline2_eq_qramps (j : ℕ) (r : ℝ) :
    bspline2 j r = 2 * qramp ((j : ℝ) + 1) r - 4 * qramp ((j : ℝ) + 1 / 2) r
      + 4 * qramp ((j : ℝ) - 1 / 2) r - 2 * qramp ((j : ℝ) - 1) r := by
  unfold bspline2 qramp
  rcases lt_or_ge r ((j : ℝ) - 1) with h | h
  · have ha : |r - j| = -(r - j) := abs_of_nonpos (by linarith)
    rw [ha, if_neg (by linarith), if_neg (by linarith), max_eq_right (by linarith), max_eq_right (by linarith),
      max_eq_right (by linarith), max_eq_right (by linarith)]
    ring
  rcases lt_or_ge r ((j : ℝ) - 1 / 2) with h2 | h2
  · have ha : |r - j| = -(r - j) := abs_of_nonpos (by linarith)
    rw [ha, if_neg (by linarith), if_pos (by linarith), max_eq_right (by linarith), max_eq_right (by linarith),
      max_eq_right (by linarith), max_eq_left (by linarith)]
    ring
  rcases le_or_gt r (j : ℝ) with h3 | h3
  · have ha : |r - j| = -(r - j) := abs_of_nonpos (by linarith)
    rw [ha, if_pos (by linarith), max_eq_right (by linarith), max_eq_right (by linarith),
      max_eq_left (by linarith), max_eq_left (by linarith)]
    ring
  rcases le_or_gt r ((j : ℝ) + 1 / 2) with h4 | h4
  · have ha : |r - j| = r - j := abs_of_nonneg (by linarith)
    rw [ha, if_pos (by linarith), max_eq_right (by linarith), max_eq_right (by linarith),
      max_eq_left (by linarith), max_eq_left (by linarith)]
    ring
  rcases le_or_gt r ((j : ℝ) + 1) with h5 | h5
  · have ha : |r - j| = r - j := abs_of_nonneg (by linarith)
    rw [ha, if_neg (by linarith), if_pos (by linarith), max_eq_right (by linarith), max_eq_left (by linarith),
      max_eq_left (by linarith), max_eq_left (by linarith)]
    ring
  · have ha : |r - j| = r - j := abs_of_nonneg (by linarith)
    rw [ha, if_neg (by linarith), if_neg (by linarith), max_eq_left (by linarith), max_eq_left (by linarith),
      max_eq_left (by linarith), max_eq_left (by linarith)]
    ring

/-- linear combinations of four integrable profiles -/
theorem abel_comb4 (c1 c2 c3 c4 : ℝ) (f1 f2 f3 f4 : ℝ → ℝ) (x : ℝ)
    (h1 : LosInt f1 x) (h2 : LosInt f2 x) (h3 : LosInt f3 x) (h4 : LosInt f4 x) :
    Abel (fun r => c1 * f1 r - c2 * f2 r + c3 * f3 r - c4 * f4 r) x
      = c1 * Abel f1 x - c2 * Abel f2 x + c3 * Abel f3 x - c4 * Abel f4 x := by
  have i1 := h1.const_mul c1
  have i2 := h2.const_mul c2
  have i3 := h3.const_mul c3
  have i4 := h4.const_mul c4
  rw [abel_sub ((i1.sub i2).add i3) i4, abel_add (i1.sub i2) i3, abel_sub i1 i2,
    abel_const_mul, abel_const_mul, abel_const_mul, abel_const_mul]

/-- the coded antiderivative for an integer knot `m`: `P(2m; 2m², −4m, 2)[i] + 4m·i² ln i = 2·Abel((m − r)₊²)(i)` -/
theorem daun2P_even (m i : ℕ) :
    2 * Abel (qramp (m : ℝ)) i
      = if i < m then (daun2P (2 * m) (2 * (m : ℤ) ^ 2) (-4 * (m : ℤ)) 2 i : ℝ) + ((4 * m : ℕ) : ℝ) * x2logx i else 0 := by
  rw [abel_qramp _ _ (Nat.cast_nonneg m) (Nat.cast_nonneg i)]
  have hiff : ((i : ℝ) < (m : ℝ)) ↔ i < m := Nat.cast_lt
  by_cases h : i < m
  · rw [if_pos (hiff.mpr h), if_pos h]
    unfold daun2P x2logx
    simp only [sqrt_real, log_real]
    have e1 : ((2 * m : ℕ) : ℝ) / ((2 : ℕ) : ℝ) = (m : ℝ) := by push_cast; ring
    have e2 : ((i ^ 2 : ℕ) : ℝ) = (i : ℝ) ^ 2 := by push_cast; ring
    rw [e1, e2, show (m : ℝ) * (m : ℝ) - (i : ℝ) ^ 2 = (m : ℝ) ^ 2 - (i : ℝ) ^ 2 by ring]
    by_cases h0 : i = 0
    · subst h0; push_cast; simp; ring
    · rw [if_neg h0]; push_cast; ring
  · rw [if_neg (fun hh => h (hiff.mp hh)), if_neg h]; ring

/-- … and for a half-integer knot `n/2`: `P(n; n², −4n, 4)[i] + 4n·i² ln i = 4·Abel((n/2 − r)₊²)(i)` -/
theorem daun2P_odd (n i : ℕ) :
    4 * Abel (qramp ((n : ℝ) / 2)) i
      = if 2 * i < n then (daun2P n ((n : ℤ) ^ 2) (-4 * (n : ℤ)) 4 i : ℝ) + ((4 * n : ℕ) : ℝ) * x2logx i else 0 := by
  rw [abel_qramp _ _ (by positivity) (Nat.cast_nonneg i)]
  have hiff : ((i : ℝ) < (n : ℝ) / 2) ↔ 2 * i < n := by
    rw [lt_div_iff₀ (by norm_num : (0 : ℝ) < 2)]
    constructor
    · intro h; have : ((2 * i : ℕ) : ℝ) < (n : ℝ) := by push_cast; linarith
      exact_mod_cast this
    · intro h; have : ((2 * i : ℕ) : ℝ) < (n : ℝ) := by exact_mod_cast h
      push_cast at this; linarith
  by_cases h : 2 * i < n
  · rw [if_pos (hiff.mpr h), if_pos h]
    unfold daun2P x2logx
    simp only [sqrt_real, log_real]
    have e1 : ((n : ℕ) : ℝ) / ((2 : ℕ) : ℝ) = (n : ℝ) / 2 := by push_cast; ring
    have e2 : ((i ^ 2 : ℕ) : ℝ) = (i : ℝ) ^ 2 := by push_cast; ring
    rw [e1, e2, show (n : ℝ) / 2 * ((n : ℝ) / 2) - (i : ℝ) ^ 2 = ((n : ℝ) / 2) ^ 2 - (i : ℝ) ^ 2 by ring]
    by_cases h0 : i = 0
    · subst h0; push_cast; simp; ring
    · rw [if_neg h0]; push_cast; ring
  · rw [if_neg (fun hh => h (hiff.mp hh)), if_neg h]; ring

/-- **Daun degree 2**: `A[j, i]` is the Abel integral of the `j`-th quadratic B-spline at pixel `i`, for all `i`, `j` -/
theorem daun2_eq_abel (j i : ℕ) : (daun2 j i : ℝ) = Abel (bspline2 j) i := by
  have hcomb : Abel (bspline2 j) i
      = 2 * Abel (qramp ((j : ℝ) + 1)) i - 4 * Abel (qramp ((j : ℝ) + 1 / 2)) i
        + 4 * Abel (qramp ((j : ℝ) - 1 / 2)) i - 2 * Abel (qramp ((j : ℝ) - 1)) i := by
    rw [abel_congr_nonneg (i : ℝ) (fun r _ => bspline2_eq_qramps j r)]
    exact abel_comb4 2 4 4 2 _ _ _ _ _ (losInt_qramp _ _) (losInt_qramp _ _) (losInt_qramp _ _) (losInt_qramp _ _)
  rw [hcomb]
  have c1 : ((j : ℝ) + 1) = ((j + 1 : ℕ) : ℝ) := by push_cast; ring
  have c2 : ((j : ℝ) + 1 / 2) = ((2 * j + 1 : ℕ) : ℝ) / 2 := by push_cast; ring
  rw [c1, c2, daun2P_even (j + 1) i, daun2P_odd (2 * j + 1) i]
  unfold daun2
  simp only []
  rcases Nat.eq_zero_or_pos j with hj | hj
  · subst hj
    rw [abel_qramp_nonpos _ _ (by norm_num), abel_qramp_nonpos _ _ (by norm_num)]
    by_cases h0 : i = 0
    · subst h0; simp [x2logx]
    · have a1 : ¬ i < 0 + 1 := by omega
      have a2 : ¬ 2 * i < 2 * 0 + 1 := by omega
      have a3 : ¬ i ≤ 0 := by omega
      simp [a1, a2, a3]
  · have c3 : ((j : ℝ) - 1 / 2) = ((2 * j - 1 : ℕ) : ℝ) / 2 := by
      have : 1 ≤ 2 * j := by omega
      push_cast [Nat.cast_sub this]; ring
    have c4 : ((j : ℝ) - 1) = ((j - 1 : ℕ) : ℝ) := by rw [Nat.cast_sub hj]; simp
    rw [c3, c4, daun2P_odd (2 * j - 1) i, daun2P_even (j - 1) i]
    have hJ1 : ((j + 1 : ℕ) : ℤ) = (j : ℤ) + 1 := by push_cast; ring
    have hJ2 : ((2 * j + 1 : ℕ) : ℤ) = 2 * (j : ℤ) + 1 := by push_cast; ring
    have hJ3 : ((2 * j - 1 : ℕ) : ℤ) = 2 * (j : ℤ) - 1 := by
      have : 1 ≤ 2 * j := by omega
      push_cast [Nat.cast_sub this]; ring
    have hJ4 : ((j - 1 : ℕ) : ℤ) = (j : ℤ) - 1 := by rw [Nat.cast_sub hj]; simp
    rw [hJ1, hJ2, hJ3, hJ4]
    rcases Nat.lt_trichotomy i j with hlt | heq | hgt
    · by_cases h1 : i + 1 = j
      · have b1 : i < j + 1 := by omega
        have b2 : 2 * i < 2 * j + 1 := by omega
        have b3 : 2 * i < 2 * j - 1 := by omega
        have b4 : ¬ i < j - 1 := by omega
        have b5 : ¬ i + 1 < j := by omega
        have b6 : j - 1 = i := by omega
        simp only [b1, b2, b3, b4, b5, h1, hj, hlt, hlt.le, hlt.ne, b6, lt_irrefl, if_true, if_false, true_and, and_true, and_false]
        push_cast
        have : 1 ≤ 2 * j := by omega
        push_cast [Nat.cast_sub this]
        have hji : (j : ℝ) = (i : ℝ) + 1 := by exact_mod_cast h1.symm
        rw [hji]; ring
      · have b1 : i < j + 1 := by omega
        have b2 : 2 * i < 2 * j + 1 := by omega
        have b3 : 2 * i < 2 * j - 1 := by omega
        have b4 : i < j - 1 := by omega
        have b5 : i + 1 < j := by omega
        simp only [b1, b2, b3, b4, b5, h1, hj, hlt, hlt.le, hlt.ne, if_true, if_false, true_and, and_true, and_false]
        push_cast
        have h2j : 1 ≤ 2 * j := by omega
        push_cast [Nat.cast_sub h2j, Nat.cast_sub hj]
        ring
    · subst heq
      have b1 : i < i + 1 := by omega
      have b2 : 2 * i < 2 * i + 1 := by omega
      have b3 : ¬ 2 * i < 2 * i - 1 := by omega
      have b4 : ¬ i < i - 1 := by omega
      have b5 : ¬ i + 1 < i := by omega
      have b6 : ¬ i + 1 = i := by omega
      simp only [b1, b2, b3, b4, b5, b6, hj, le_refl, lt_irrefl, if_true, if_false, true_and, and_true, and_false]
      push_cast
      ring
    · have b1 : ¬ i < j + 1 := by omega
      have b2 : ¬ 2 * i < 2 * j + 1 := by omega
      have b3 : ¬ 2 * i < 2 * j - 1 := by omega
      have b4 : ¬ i < j - 1 := by omega
      have b5 : ¬ i ≤ j := by omega
      have b6 : ¬ i < j := by omega
      have b7 : ¬ i = j := by omega
      have b8 : ¬ i + 1 < j := by omega
      have b9 : ¬ i + 1 = j := by omega
      simp [b1, b2, b3, b4, b5, b6, b7, b8, b9]

/-! non-vacuity: on the axis the unit ramp projects to 1 (chord 1, mean height ½, both sides) -/
example : Abel (ramp 1) 0 = 1 := by
  rw [abel_ramp 1 0 (by norm_num) (le_refl 0)]; norm_num

end PyAbel.C09
