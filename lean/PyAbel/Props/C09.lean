/-
C09 — every basis projection and operator equals its defining Abel integral.

Proved here (growing): the degree-0 Daun basis (`_bs_daun(n, 0)`) and the onion-peeling weight matrix `W`
(`_bs_onion_peeling`) are, entry by entry and for all indices, the line-of-sight integrals of the rectangular
shell functions they are defined from.  Other families (daun 1-3, basex, rbasex, two/three-point) are tied to their
defining integrals numerically by the check (quadrature oracle), not yet by theorems.
-/
import PyAbel.Lemmas.Abel
import PyAbel.Lemmas.RealInst
import PyAbel.Props.C17

namespace PyAbel.C09
open PyAbel Set

/-- the rectangular (degree 0) basis function of pixel `j`: 1 on `[j − ½, j + ½)`, restricted to `r ≥ 0` -/
noncomputable def rect (j : ℕ) : ℝ → ℝ := indicator (Ico (max 0 ((j : ℝ) - 1 / 2)) ((j : ℝ) + 1 / 2)) 1

/-- **Daun degree 0**: `A[j, i]` is the Abel integral of the `j`-th rectangular function at pixel `i`
    (all `i`, `j`; units of the pixel size) -/
theorem daun0_eq_abel (j i : ℕ) : (daun0 j i : ℝ) = Abel (rect j) i := by
  unfold rect
  rw [abel_shell _ _ _ (le_max_left _ _) (by
    apply max_le <;> [positivity; linarith])]
  unfold daun0
  have hj : (0 : ℝ) ≤ j := Nat.cast_nonneg j
  have hi : (0 : ℝ) ≤ i := Nat.cast_nonneg i
  by_cases hlt : j < i
  · -- pixel beyond the shell: both half-chords vanish
    simp only [hlt, if_true]
    have h1 : ((j : ℝ) + 1 / 2) ^ 2 - (i : ℝ) ^ 2 ≤ 0 := by
      have : (j : ℝ) + 1 ≤ i := by exact_mod_cast hlt
      nlinarith
    have h2 : (max 0 ((j : ℝ) - 1 / 2)) ^ 2 - (i : ℝ) ^ 2 ≤ 0 := by
      have : (j : ℝ) + 1 ≤ i := by exact_mod_cast hlt
      have hm : max 0 ((j : ℝ) - 1 / 2) ≤ (j : ℝ) + 1 / 2 := by apply max_le <;> linarith
      have hm0 : 0 ≤ max 0 ((j : ℝ) - 1 / 2) := le_max_left _ _
      nlinarith
    rw [hc_of_nonpos h1, hc_of_nonpos h2]; ring
  · simp only [hlt, if_false, sqrt_real]
    have hle : (i : ℝ) ≤ j := by exact_mod_cast Nat.le_of_not_lt hlt
    have hb : (0 : ℝ) ≤ ((j : ℝ) + 1 / 2) ^ 2 - (i : ℝ) ^ 2 := by nlinarith
    have eb : ((2 * j + 1 : ℕ) : ℝ) / ((2 : ℕ) : ℝ) * (((2 * j + 1 : ℕ) : ℝ) / ((2 : ℕ) : ℝ)) - ((i ^ 2 : ℕ) : ℝ)
        = ((j : ℝ) + 1 / 2) ^ 2 - (i : ℝ) ^ 2 := by push_cast; ring
    by_cases hij : i = j
    · subst hij
      simp only [if_true]
      rw [eb, hc_of_nonneg hb]
      -- inner radius lies inside pixel i: its half-chord is zero
      have h2 : (max 0 ((i : ℝ) - 1 / 2)) ^ 2 - (i : ℝ) ^ 2 ≤ 0 := by
        rcases le_total ((i : ℝ) - 1 / 2) 0 with h | h
        · rw [max_eq_left h]; nlinarith
        · rw [max_eq_right h]; nlinarith
      rw [hc_of_nonpos h2]; push_cast; ring
    · simp only [hij, if_false]
      have hlt' : i < j := lt_of_le_of_ne (Nat.le_of_not_lt hlt) hij
      have h1 : (i : ℝ) + 1 ≤ j := by exact_mod_cast hlt'
      have hpos : (0 : ℝ) ≤ (j : ℝ) - 1 / 2 := by linarith
      rw [max_eq_right hpos]
      have ha : (0 : ℝ) ≤ ((j : ℝ) - 1 / 2) ^ 2 - (i : ℝ) ^ 2 := by nlinarith
      have ea : ((2 * j - 1 : ℕ) : ℝ) / ((2 : ℕ) : ℝ) * (((2 * j - 1 : ℕ) : ℝ) / ((2 : ℕ) : ℝ)) - ((i ^ 2 : ℕ) : ℝ)
          = ((j : ℝ) - 1 / 2) ^ 2 - (i : ℝ) ^ 2 := by
        have : 1 ≤ 2 * j := by omega
        push_cast [Nat.cast_sub this]; ring
      rw [eb, ea, hc_of_nonneg hb, hc_of_nonneg ha]; push_cast; ring

/-- **Onion peeling**: `W[i, j]` (Dasch Eq. (11)) is the Abel integral of the `j`-th shell at pixel `i`;
    the deconvolution operator is `D = W⁻¹`, the exact inverse of that projection for piecewise-constant data. -/
theorem onionW_eq_abel (i j : ℕ) : (onionW i j : ℝ) = Abel (rect j) i := by
  rw [← C17.daun_default_eq_onion_peeling_matrix, daun0_eq_abel]

/-- the unprojected degree-0 basis function is the documented rectangle: 1 on `[j − ½, j + ½)`, 0 elsewhere (`r ≥ 0`) -/
theorem rect_formula (j : ℕ) (r : ℝ) (hr : 0 ≤ r) :
    rect j r = if (j : ℝ) - 1 / 2 ≤ r ∧ r < (j : ℝ) + 1 / 2 then 1 else 0 := by
  unfold rect
  by_cases h : (j : ℝ) - 1 / 2 ≤ r ∧ r < (j : ℝ) + 1 / 2
  · rw [if_pos h, indicator_of_mem]
    · rfl
    · exact ⟨max_le hr h.1, h.2⟩
  · rw [if_neg h, indicator_of_notMem]
    intro hm
    exact h ⟨le_trans (le_max_right _ _) hm.1, hm.2⟩

/-! non-vacuity: the diagonal entry of the first off-axis pixel, W[1,1] = √5, is 2·√(1.5² − 1²) -/
example : Abel (rect 1) 1 = 2 * (hc ((3 / 2 : ℝ) ^ 2 - 1 ^ 2) - hc ((1 / 2 : ℝ) ^ 2 - 1 ^ 2)) := by
  unfold rect
  rw [abel_shell _ _ _ (le_max_left _ _) (by norm_num)]
  norm_num

end PyAbel.C09
