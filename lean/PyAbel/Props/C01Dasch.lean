/-
C01 — the two-point and three-point inverse transforms are exact on their own interpolation classes: applied to samples `P_0 … P_{n−1}`
of a projection, they return at every pixel `i ≥ 1` the textbook inverse Abel integral `−(1/π) ∫_i^∞ P′(x) dx/√(x² − i²)` of the
interpolant of the samples (piecewise linear / locally quadratic, continued to zero beyond the last sample).  So whenever the true
projection *is* such an interpolant of its samples, the reconstruction is the true source at the pixel centres, for every image size —
the discretisation error of these methods is exactly the inverse Abel transform of the interpolation error of the projection.
(Corollaries of C09TwoPoint / C09ThreePoint and of the substitution `x = √(r² + t²)`.)
-/
import PyAbel.Props.C09ThreePoint

open MeasureTheory Set

namespace PyAbel.C01
open PyAbel PyAbel.C09

/-- two-point: `(D·P)_i` is the textbook inverse Abel integral of the piecewise-linear interpolant -/
theorem two_point_exact (n i : ℕ) (hi : 0 < i) (P : ℕ → ℝ) :
    sumRange n (fun j => (twoPointD i j : ℝ) * P j)
      = -(1 / Real.pi) * ∫ x in Ioi (i : ℝ), dPlin n P x / Real.sqrt (x ^ 2 - (i : ℝ) ^ 2) := by
  rw [twoPoint_eq_invAbel n i hi P, invAbel_eq_textbook _ _ (Nat.cast_nonneg i)]

/-- three-point: `(D·P)_i` is the textbook inverse Abel integral of the local quadratic interpolant -/
theorem three_point_exact (n i : ℕ) (hi : 0 < i) (P : ℕ → ℝ) :
    sumRange n (fun j => (threePointD i j : ℝ) * P j)
      = -(1 / Real.pi) * ∫ x in Ioi (i : ℝ), dPquad n P x / Real.sqrt (x ^ 2 - (i : ℝ) ^ 2) := by
  rw [threePoint_eq_invAbel n i hi P, invAbel_eq_textbook _ _ (Nat.cast_nonneg i)]

/-- … hence, for a projection whose derivative is that of the interpolant of its own samples (on `x > i`, up to a null set — here:
    everywhere), the two-point reconstruction at pixel `i` is the inverse Abel transform of the projection itself -/
theorem two_point_recovers (n i : ℕ) (hi : 0 < i) (P : ℕ → ℝ) (dProj : ℝ → ℝ) (h : ∀ x, (i : ℝ) < x → dProj x = dPlin n P x) :
    sumRange n (fun j => (twoPointD i j : ℝ) * P j)
      = -(1 / Real.pi) * ∫ x in Ioi (i : ℝ), dProj x / Real.sqrt (x ^ 2 - (i : ℝ) ^ 2) := by
  rw [two_point_exact n i hi P]
  congr 1
  apply setIntegral_congr_fun measurableSet_Ioi
  intro x hx
  simp only [h x hx]

theorem three_point_recovers (n i : ℕ) (hi : 0 < i) (P : ℕ → ℝ) (dProj : ℝ → ℝ) (h : ∀ x, (i : ℝ) < x → dProj x = dPquad n P x) :
    sumRange n (fun j => (threePointD i j : ℝ) * P j)
      = -(1 / Real.pi) * ∫ x in Ioi (i : ℝ), dProj x / Real.sqrt (x ^ 2 - (i : ℝ) ^ 2) := by
  rw [three_point_exact n i hi P]
  congr 1
  apply setIntegral_congr_fun measurableSet_Ioi
  intro x hx
  simp only [h x hx]

end PyAbel.C01
