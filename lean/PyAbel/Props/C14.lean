/-
C14 — radial distributions recover an exact angular model exactly.

Model: PyAbel/Model/Distributions.lean.  The theorems are about the algebraic core that the executable
model is built from (`weightMoment`, `dataMoment`, `solve2`, `solve3`, `solveBin`), over any field:
if within a radial bin every folded pixel value is  ω·Σ_m a_m tᵐ  (the image is Σ a_m cosᵐθ there, ω the
folded weight times the bin weight, any ω, any pixel set), then the data moments are the Hankel matrix of
the weight moments applied to `a`, and the coded adjugate inverses return `a` whenever the Hankel
determinant does not vanish.
-/
import PyAbel.Model.Distributions
import Mathlib.Algebra.BigOperators.Group.List.Basic
import Mathlib.Algebra.BigOperators.Intervals
import Mathlib.Algebra.BigOperators.Ring.Finset
import Mathlib.Algebra.Order.Field.Rat
import Mathlib.Algebra.Field.Basic
import Mathlib.Tactic.Ring
import Mathlib.Tactic.FieldSimp
import Mathlib.Tactic.Linarith

namespace PyAbel.C14
open PyAbel.Distr Finset

variable {K : Type} [Field K]

theorem lsum_eq_sum (xs : List K) : lsum xs = xs.sum := by
  unfold lsum
  rw [List.sum_eq_foldl]

theorem pow_eq (x : K) (n : ℕ) : Distr.pow x n = x ^ n := by
  induction n with
  | zero => simp [Distr.pow]
  | succ n ih => simp [Distr.pow, ih, pow_succ]

/-- **normal equations**: `p_n = Σ_m pc_{n+m} a_m` for every pixel set and every weight -/
theorem normal_equations (N : ℕ) (ps : List (Contrib K)) (a : ℕ → K)
    (hmodel : ∀ p ∈ ps, p.v = p.ω * ∑ m ∈ range N, a m * p.t ^ m) (n : ℕ) :
    dataMoment ps n = ∑ m ∈ range N, weightMoment ps (n + m) * a m := by
  simp only [dataMoment, weightMoment, lsum_eq_sum, pow_eq]
  induction ps with
  | nil => simp
  | cons p ps ih =>
    simp only [List.map_cons, List.sum_cons]
    rw [ih (fun q hq => hmodel q (List.mem_cons_of_mem _ hq)), hmodel p (List.mem_cons_self)]
    rw [Finset.mul_sum, Finset.sum_mul, ← Finset.sum_add_distrib]
    apply Finset.sum_congr rfl
    intro m _
    rw [pow_add]; ring

/-! ### structure of the two sides: geometry only / linear in the image / masked pixels / visiting order -/

/-- the normal matrix is built from the geometry and the weights alone: the image values never enter it -/
theorem weightMoment_indep_of_data (ps : List (Contrib K)) (g : K → K) (k : ℕ) :
    weightMoment (ps.map fun p => ⟨p.ω, p.t, g p.v⟩) k = weightMoment ps k := by
  simp only [weightMoment, List.map_map]
  rfl

/-- the right-hand sides are **linear in the image**: superposition of two images on the same pixel set -/
theorem dataMoment_linear (ps : List (Contrib K)) (u : Contrib K → K) (a b : K) (n : ℕ) :
    dataMoment (ps.map fun p => ⟨p.ω, p.t, a * p.v + b * u p⟩) n
      = a * dataMoment ps n + b * dataMoment (ps.map fun p => ⟨p.ω, p.t, u p⟩) n := by
  simp only [dataMoment, lsum_eq_sum, pow_eq, List.map_map]
  induction ps with
  | nil => simp
  | cons p ps ih =>
    simp only [List.map_cons, List.sum_cons, Function.comp] at ih ⊢
    rw [ih]; ring

/-- a pixel of zero weight **and** zero value contributes nothing to either side: masked pixels can be dropped or kept -/
theorem moments_drop_zero (ps : List (Contrib K)) (t : K) (n : ℕ) :
    weightMoment (⟨0, t, 0⟩ :: ps) n = weightMoment ps n ∧ dataMoment (⟨0, t, 0⟩ :: ps) n = dataMoment ps n := by
  simp [weightMoment, dataMoment, lsum_eq_sum]

/-- in exact arithmetic the moments do not depend on the order in which the pixels are visited (floating-point summation order is
    outside the model; the check compares the implementation with the model to a rounding tolerance) -/
theorem moments_perm (ps qs : List (Contrib K)) (h : ps.Perm qs) (n : ℕ) :
    weightMoment ps n = weightMoment qs n ∧ dataMoment ps n = dataMoment qs n := by
  simp only [weightMoment, dataMoment, lsum_eq_sum]
  exact ⟨(h.map _).sum_eq, (h.map _).sum_eq⟩

variable [DecidableEq K]

/-- the coded 2×2 adjugate inverse solves the Hankel system -/
theorem solve2_correct (p0 p1 p2 a0 a1 : K) (hd : p0 * p2 - p1 * p1 ≠ 0) :
    solve2 p0 p1 p2 (p0 * a0 + p1 * a1) (p1 * a0 + p2 * a1) = (a0, a1) := by
  simp only [solve2, hd, if_false]
  refine Prod.ext ?_ ?_ <;>
    (simp only; rw [show (One.one : K) = 1 from rfl, one_div, inv_mul_eq_div, div_eq_iff hd]; ring)

/-- the coded 3×3 adjugate inverse solves the Hankel system -/
theorem solve3_correct (p0 p1 p2 p3 p4 a0 a1 a2 : K)
    (hd : p0 * (p2 * p4 - p3 * p3) + p1 * (p2 * p3 - p1 * p4) + p2 * (p1 * p3 - p2 * p2) ≠ 0) :
    solve3 p0 p1 p2 p3 p4 (p0 * a0 + p1 * a1 + p2 * a2) (p1 * a0 + p2 * a1 + p3 * a2) (p2 * a0 + p3 * a1 + p4 * a2)
      = (a0, a1, a2) := by
  simp only [solve3, hd, if_false]
  refine Prod.ext ?_ (Prod.ext ?_ ?_) <;>
    (simp only; rw [show (One.one : K) = 1 from rfl, one_div, inv_mul_eq_div, div_eq_iff hd]; ring)

/-- **exact recovery**, one angular term (order 0) -/
theorem recover_exact_1 (ps : List (Contrib K)) (a : ℕ → K)
    (hmodel : ∀ p ∈ ps, p.v = p.ω * ∑ m ∈ range 1, a m * p.t ^ m) (h : weightMoment ps 0 ≠ 0) :
    solveBin 1 ps = [a 0] := by
  have e0 := normal_equations 1 ps a hmodel 0
  simp only [Finset.sum_range_one, Nat.add_zero] at e0
  simp only [solveBin, h, if_false, e0]
  congr 1
  rw [show (One.one : K) = 1 from rfl, one_div, inv_mul_eq_div, div_eq_iff h]; ring

/-- **exact recovery**, two angular terms -/
theorem recover_exact_2 (ps : List (Contrib K)) (a : ℕ → K)
    (hmodel : ∀ p ∈ ps, p.v = p.ω * ∑ m ∈ range 2, a m * p.t ^ m)
    (h : weightMoment ps 0 * weightMoment ps 2 - weightMoment ps 1 * weightMoment ps 1 ≠ 0) :
    solveBin 2 ps = [a 0, a 1] := by
  have e0 := normal_equations 2 ps a hmodel 0
  have e1 := normal_equations 2 ps a hmodel 1
  simp only [Finset.sum_range_succ, Finset.sum_range_zero, zero_add, Nat.add_zero] at e0 e1
  simp only [solveBin, e0, e1]
  rw [solve2_correct _ _ _ _ _ h]

/-- **exact recovery**, three angular terms -/
theorem recover_exact_3 (ps : List (Contrib K)) (a : ℕ → K)
    (hmodel : ∀ p ∈ ps, p.v = p.ω * ∑ m ∈ range 3, a m * p.t ^ m)
    (h : weightMoment ps 0 * (weightMoment ps 2 * weightMoment ps 4 - weightMoment ps 3 * weightMoment ps 3)
        + weightMoment ps 1 * (weightMoment ps 2 * weightMoment ps 3 - weightMoment ps 1 * weightMoment ps 4)
        + weightMoment ps 2 * (weightMoment ps 1 * weightMoment ps 3 - weightMoment ps 2 * weightMoment ps 2) ≠ 0) :
    solveBin 3 ps = [a 0, a 1, a 2] := by
  have e0 := normal_equations 3 ps a hmodel 0
  have e1 := normal_equations 3 ps a hmodel 1
  have e2 := normal_equations 3 ps a hmodel 2
  simp only [Finset.sum_range_succ, Finset.sum_range_zero, zero_add, Nat.add_zero] at e0 e1 e2
  simp only [solveBin, e0, e1, e2]
  rw [solve3_correct _ _ _ _ _ _ _ _ h]

/-- **exact recovery, any number of angular terms** (orders 6, 8, … and odd orders with four and more terms, which the code inverts with a
    general matrix inverse): whenever `C` is a left inverse of the ring's Hankel matrix of weight moments, `C` applied to the data moments
    returns the model's coefficients — for every pixel set and every weights -/
theorem recover_exact_general (N : ℕ) (ps : List (Contrib K)) (a : ℕ → K)
    (hmodel : ∀ p ∈ ps, p.v = p.ω * ∑ m ∈ range N, a m * p.t ^ m)
    (C : ℕ → ℕ → K)
    (hC : ∀ k, k < N → ∀ m, m < N → ∑ n ∈ range N, C k n * weightMoment ps (n + m) = if k = m then 1 else 0)
    (k : ℕ) (hk : k < N) :
    ∑ n ∈ range N, C k n * dataMoment ps n = a k := by
  have h1 : ∀ n, dataMoment ps n = ∑ m ∈ range N, weightMoment ps (n + m) * a m := normal_equations N ps a hmodel
  simp only [h1, Finset.mul_sum]
  rw [Finset.sum_comm]
  have h2 : ∀ m ∈ range N, ∑ n ∈ range N, C k n * (weightMoment ps (n + m) * a m) = (if k = m then 1 else 0) * a m := by
    intro m hm
    rw [← hC k hk m (Finset.mem_range.mp hm), Finset.sum_mul]
    apply Finset.sum_congr rfl; intro n _; ring
  rw [Finset.sum_congr rfl h2]
  simp [Finset.sum_ite_eq, Finset.mem_range.mpr hk]

/-! non-vacuity: two pixels with cos²θ = 0 and 1 determine an order-2 model -/
example : (weightMoment ([⟨1, 0, 5⟩, ⟨1, 1, 8⟩] : List (Contrib ℚ)) 0)
      * weightMoment ([⟨1, 0, 5⟩, ⟨1, 1, 8⟩] : List (Contrib ℚ)) 2
    - weightMoment ([⟨1, 0, 5⟩, ⟨1, 1, 8⟩] : List (Contrib ℚ)) 1 * weightMoment ([⟨1, 0, 5⟩, ⟨1, 1, 8⟩] : List (Contrib ℚ)) 1 ≠ 0 := by
  simp [weightMoment, lsum, Distr.pow]


/-! ### the per-radius scaling of the coded inverses (repair F72: `inverse(p / s) / s`, `s` the total weight at the radius)
is exact in field arithmetic, degenerate branches included — it changes rounding only -/

theorem solve2_scaled (p0 p1 p2 b0 b1 s : K) (hs : s ≠ 0) :
    ((solve2 (p0 / s) (p1 / s) (p2 / s) b0 b1).1 / s, (solve2 (p0 / s) (p1 / s) (p2 / s) b0 b1).2 / s)
      = solve2 p0 p1 p2 b0 b1 := by
  have hd : p0 / s * (p2 / s) - p1 / s * (p1 / s) = (p0 * p2 - p1 * p1) / (s * s) := by field_simp
  have hss : s * s ≠ 0 := mul_ne_zero hs hs
  have e1 : ((p0 * p2 - p1 * p1) / (s * s) = 0) ↔ (p0 * p2 - p1 * p1 = 0) := by
    rw [div_eq_zero_iff]; simp [hss]
  have e2 : (p0 / s = 0) ↔ (p0 = 0) := by rw [div_eq_zero_iff]; simp [hs]
  unfold solve2
  simp only [hd, e1, e2, show (One.one : K) = 1 from rfl]
  generalize hD : p0 * p2 - p1 * p1 = d
  by_cases h : d = 0
  · by_cases h0 : p0 = 0
    · simp only [h, h0, if_true]; simp
    · simp only [h, h0, if_true, if_false]
      refine Prod.ext ?_ ?_
      · simp only; field_simp
      · simp
  · simp only [h, if_false]
    refine Prod.ext ?_ ?_ <;> (simp only; field_simp)

theorem solve3_scaled (p0 p1 p2 p3 p4 b0 b1 b2 s : K) (hs : s ≠ 0) :
    let r := solve3 (p0 / s) (p1 / s) (p2 / s) (p3 / s) (p4 / s) b0 b1 b2
    (r.1 / s, r.2.1 / s, r.2.2 / s) = solve3 p0 p1 p2 p3 p4 b0 b1 b2 := by
  intro r
  have hs3 : s * s * s ≠ 0 := mul_ne_zero (mul_ne_zero hs hs) hs
  have hd : p0 / s * (p2 / s * (p4 / s) - p3 / s * (p3 / s)) + p1 / s * (p2 / s * (p3 / s) - p1 / s * (p4 / s))
      + p2 / s * (p1 / s * (p3 / s) - p2 / s * (p2 / s))
      = (p0 * (p2 * p4 - p3 * p3) + p1 * (p2 * p3 - p1 * p4) + p2 * (p1 * p3 - p2 * p2)) / (s * s * s) := by field_simp
  have e1 : ((p0 * (p2 * p4 - p3 * p3) + p1 * (p2 * p3 - p1 * p4) + p2 * (p1 * p3 - p2 * p2)) / (s * s * s) = 0) ↔
      (p0 * (p2 * p4 - p3 * p3) + p1 * (p2 * p3 - p1 * p4) + p2 * (p1 * p3 - p2 * p2) = 0) := by
    rw [div_eq_zero_iff]; simp [hs3]
  have h2 := solve2_scaled p0 p1 p2 b0 b1 s hs
  show (r.1 / s, r.2.1 / s, r.2.2 / s) = _
  simp only [r]
  unfold solve3
  simp only [hd, e1, show (One.one : K) = 1 from rfl]
  generalize hD : p0 * (p2 * p4 - p3 * p3) + p1 * (p2 * p3 - p1 * p4) + p2 * (p1 * p3 - p2 * p2) = d
  by_cases h : d = 0
  · simp only [h, if_true]
    rw [← h2]; simp
  · simp only [h, if_false]
    refine Prod.ext ?_ (Prod.ext ?_ ?_) <;> (simp only; field_simp)

example : ((solve2 ((6 : ℚ) / 3) (3 / 3) (9 / 3) 1 2).1 / 3, (solve2 ((6 : ℚ) / 3) (3 / 3) (9 / 3) 1 2).2 / 3)
    = solve2 6 3 9 1 2 := solve2_scaled 6 3 9 1 2 3 (by norm_num)

end PyAbel.C14
