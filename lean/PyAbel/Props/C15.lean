/-
C15 — distribution representations agree and respect image symmetries.

Models: Model/Representations.lean (cos^n ↔ cos^n sin^m ↔ Legendre, exact rationals) and the algebraic core of
Model/Distributions.lean (weight scaling, zero-weight pixels).
-/
import PyAbel.Model.Representations
import PyAbel.Props.C14
import Mathlib.Data.Nat.Choose.Basic
import Mathlib.Algebra.BigOperators.Intervals
import Mathlib.Tactic.Ring
import Mathlib.Tactic.FieldSimp
import Mathlib.Tactic.IntervalCases

set_option linter.unusedSectionVars false

namespace PyAbel.C15
open PyAbel.Repr PyAbel.Distr Finset

/-! ### 1. cos^n ↔ cos^n·sin^m : the flipped Pascal matrix re-expands every cos power with (cos² + sin²) = 1

`c` = cos²θ, `s` = sin²θ, `c + s = 1`.  `a j` multiplies c^j (even powers) — for the odd powers the same identity
holds after factoring out one cos θ, with the matrix of one size less, which is what the code uses. -/

theorem cossin_same_function {R : Type} [CommRing R] (N : ℕ) (hN : N ≤ 5) (a : ℕ → R) (c s : R) (h : c + s = 1) :
    ∑ i ∈ range N, (∑ j ∈ range N, (cossinMatrix N i j : R) * a j) * c ^ i * s ^ (N - 1 - i)
      = ∑ j ∈ range N, a j * c ^ j := by
  have hs : s = 1 - c := by rw [← h]; ring
  subst hs
  interval_cases N <;>
    simp [Finset.sum_range_succ, cossinMatrix, Repr.choose] <;> ring

/-! ### 2. cos^n ↔ Legendre: the conversion matrix is the exact inverse of the Legendre coefficient matrix
(orders 0…8, with and without odd terms): Σ_i harm_i P_i(x) and Σ_k cn_k x^k are the same polynomial. -/

theorem harmonics_table_even :
    ((List.range 6).all fun t => matMul (legendreMatrix false t) (harmonicsMatrix false t) == identity t) = true := by
  decide +kernel

theorem harmonics_table_odd :
    ((List.range 10).all fun t => matMul (legendreMatrix true t) (harmonicsMatrix true t) == identity t) = true := by
  decide +kernel

/-- the recurrence-defined polynomials are the familiar ones (spot values; non-vacuity of the table) -/
theorem legendre_values : legendre 2 = [-1 / 2, 0, 3 / 2] ∧ legendre 3 = [0, -3 / 2, 0, 5 / 2]
    ∧ legendre 4 = [3 / 8, 0, -15 / 4, 0, 35 / 8] := by decide +kernel

/-! ### 3. invariance under positive weight scaling and under the values of zero-weight pixels -/

variable {K : Type} [Field K] [DecidableEq K]

def scaleContrib (l : K) (p : Contrib K) : Contrib K := ⟨l * p.ω, p.t, l * p.v⟩

theorem weightMoment_scale (l : K) (ps : List (Contrib K)) (k : ℕ) :
    weightMoment (ps.map (scaleContrib l)) k = l * weightMoment ps k := by
  simp only [weightMoment, C14.lsum_eq_sum, List.map_map]
  induction ps with
  | nil => simp
  | cons p ps ih => simp only [List.map_cons, List.sum_cons, Function.comp, scaleContrib] at *; rw [ih]; ring

theorem dataMoment_scale (l : K) (ps : List (Contrib K)) (n : ℕ) :
    dataMoment (ps.map (scaleContrib l)) n = l * dataMoment ps n := by
  simp only [dataMoment, C14.lsum_eq_sum, List.map_map]
  induction ps with
  | nil => simp
  | cons p ps ih => simp only [List.map_cons, List.sum_cons, Function.comp, scaleContrib] at *; rw [ih]; ring

/-- multiplying all weights by a non-zero constant does not change the result (one and two angular terms shown;
    three terms: same algebra, checked numerically) -/
theorem weight_scaling_1 (l : K) (hl : l ≠ 0) (ps : List (Contrib K)) :
    solveBin 1 (ps.map (scaleContrib l)) = solveBin 1 ps := by
  simp only [solveBin, weightMoment_scale, dataMoment_scale]
  by_cases h : weightMoment ps 0 = 0
  · simp [h]
  · have : l * weightMoment ps 0 ≠ 0 := mul_ne_zero hl h
    simp only [h, this, if_false]
    congr 1
    rw [show (One.one : K) = 1 from rfl]; field_simp

theorem weight_scaling_2 (l : K) (hl : l ≠ 0) (ps : List (Contrib K)) :
    solveBin 2 (ps.map (scaleContrib l)) = solveBin 2 ps := by
  simp only [solveBin, weightMoment_scale, dataMoment_scale, solve2]
  set p0 := weightMoment ps 0; set p1 := weightMoment ps 1; set p2 := weightMoment ps 2
  set b0 := dataMoment ps 0; set b1 := dataMoment ps 1
  have hd : l * p0 * (l * p2) - l * p1 * (l * p1) = l ^ 2 * (p0 * p2 - p1 * p1) := by ring
  by_cases h : p0 * p2 - p1 * p1 = 0
  · have h' : l * p0 * (l * p2) - l * p1 * (l * p1) = 0 := by rw [hd, h]; ring
    simp only [h, h', if_true]
    by_cases h0 : p0 = 0
    · simp [h0]
    · have : l * p0 ≠ 0 := mul_ne_zero hl h0
      simp only [h0, this, if_false]
      congr 1
      rw [show (One.one : K) = 1 from rfl]; field_simp
  · have h' : l * p0 * (l * p2) - l * p1 * (l * p1) ≠ 0 := by
      rw [hd]; exact mul_ne_zero (pow_ne_zero 2 hl) h
    simp only [h, h', if_false]
    rw [show (One.one : K) = 1 from rfl]
    congr 1
    · rw [hd]; field_simp
    · congr 1; rw [hd]; field_simp

/-- a pixel of zero weight contributes nothing, whatever the image holds there -/
theorem zero_weight_pixel (ps : List (Contrib K)) (t : K) (N : ℕ) :
    solveBin N (ps ++ [⟨0, t, 0⟩]) = solveBin N ps := by
  have hw : ∀ k, weightMoment (ps ++ [⟨0, t, 0⟩]) k = weightMoment ps k := by
    intro k; simp [weightMoment, C14.lsum_eq_sum]
  have hd : ∀ k, dataMoment (ps ++ [⟨0, t, 0⟩]) k = dataMoment ps k := by
    intro k; simp [dataMoment, C14.lsum_eq_sum]
  unfold solveBin
  simp only [hw, hd]

end PyAbel.C15
