/-
C02 — forward transforms reproduce the true projection (a-priori part).

Proved:  (i) positivity bound of the Abel operator: a function supported in [0, R) and bounded by M projects to at
most 2M·√(R²−x²) in absolute value (chord length times the bound) — the tool that turns an interpolation error into a
projection error;  (ii) the forward matrix forms scale with the pixel size (from C04);  (iii) the degree-0 Daun forward
operator applied to samples is *exactly* the Abel integral of the corresponding step interpolant, for every profile
and size (from C09), so its error is the projection of the interpolation error, bounded by (i).
Accuracy envelopes of the other forward methods (basex, hansenlaw, direct, rbasex) are measured by the check.
-/
import PyAbel.Lemmas.Abel
import PyAbel.Lemmas.AbelLinear
import Mathlib.Algebra.Order.Floor.Semiring
import PyAbel.Props.C04
import PyAbel.Props.C09

open MeasureTheory Set

namespace PyAbel.C02
open PyAbel

/-- **positivity bound**: `|Abel g x| ≤ 2 M √(R² − x²)₊` for `g` supported in `[0, R)` with `|g| ≤ M` -/
theorem abel_abs_le (g : ℝ → ℝ) (R M x : ℝ) (hR : 0 ≤ R) (hM : 0 ≤ M)
    (hsupp : ∀ r, R ≤ r → g r = 0) (hbound : ∀ r, |g r| ≤ M) :
    |Abel g x| ≤ 2 * M * hc (R ^ 2 - x ^ 2) := by
  unfold Abel
  set B := hc (R ^ 2 - x ^ 2) with hB
  have hB0 : 0 ≤ B := hc_nonneg _
  -- beyond z = B the line of sight is outside the support
  have hzero : ∀ z ∈ Ioi (0 : ℝ) \ Ioc 0 B, g (Real.sqrt (x ^ 2 + z ^ 2)) = 0 := by
    intro z hz
    simp only [mem_sdiff, mem_Ioi, mem_Ioc, not_and, not_le] at hz
    obtain ⟨hz0, hzB⟩ := hz
    have hzB' : B < z := hzB hz0
    apply hsupp
    have : ¬ z < hc (R ^ 2 - x ^ 2) := by rw [← hB]; exact not_lt.mpr hzB'.le
    rw [lt_hc_iff hz0] at this
    have h2 : R ^ 2 ≤ x ^ 2 + z ^ 2 := by simp only [not_lt] at this; linarith
    calc R = Real.sqrt (R ^ 2) := (Real.sqrt_sq hR).symm
      _ ≤ Real.sqrt (x ^ 2 + z ^ 2) := Real.sqrt_le_sqrt h2
  have hsub : Ioc (0 : ℝ) B ⊆ Ioi 0 := fun z hz => hz.1
  rw [setIntegral_eq_of_subset_of_forall_sdiff_eq_zero (μ := volume) measurableSet_Ioi hsub hzero]
  have hle := norm_setIntegral_le_of_norm_le_const (μ := volume) (s := Ioc (0 : ℝ) B) (C := M)
      (f := fun z => g (Real.sqrt (x ^ 2 + z ^ 2))) (by simp) (fun z _ => by simpa using hbound _)
  rw [Real.norm_eq_abs] at hle
  rw [abs_mul, abs_of_pos (by norm_num : (0 : ℝ) < 2)]
  have hvol : (volume : Measure ℝ).real (Ioc 0 B) = B := by
    simp [measureReal_def, Real.volume_Ioc, ENNReal.toReal_ofReal hB0]
  rw [hvol] at hle
  nlinarith

/-- forward operators in matrix form scale with the pixel size: `forward(dr) = dr · forward(1)` (C04) -/
theorem forward_scales_with_dr {K : Type} [Field K] (n : ℕ) (M : ℕ → ℕ → K) (dr : K) (x : ℕ → K) (j : ℕ) :
    vecMat n x (fun k j => M k j * dr) j = vecMat n x M j * dr :=
  C04.forward_scales n M dr x j

/-- every entry of the degree-0 forward matrix is bounded by the chord through its shell: `0 ≤ A[j,i] ≤ 2·√((j+½)²−i²)₊` -/
theorem daun0_entry_le (j i : ℕ) : |(daun0 j i : ℝ)| ≤ 2 * 1 * hc (((j : ℝ) + 1 / 2) ^ 2 - (i : ℝ) ^ 2) := by
  rw [C09.daun0_eq_abel]
  apply abel_abs_le _ _ 1 _ (by positivity) (by norm_num)
  · intro r hr
    unfold C09.rect
    rw [indicator_of_notMem]
    intro hm; exact absurd hm.2 (not_lt.mpr hr)
  · intro r
    unfold C09.rect
    by_cases hm : r ∈ Ico (max 0 ((j : ℝ) - 1 / 2)) ((j : ℝ) + 1 / 2)
    · rw [indicator_of_mem hm]; simp
    · rw [indicator_of_notMem hm]; simp

/-! ### an a-priori accuracy envelope for one forward method

`daun_transform(direction='forward', degree=0)` (equivalently the forward onion-peeling matrix) applied to the samples
`f(0), f(1), …` of a Lipschitz source is the exact projection of the step interpolant of the samples (C09), so its error is
the projection of the interpolation error — at most `L/2` on the support — and the positivity bound gives an explicit
first-order envelope, for every size and every pixel. -/

/-- the step interpolant `Σ_j c_j rect_j` takes the value of the nearest sample -/
theorem stepInterp_eq (n : ℕ) (c : ℕ → ℝ) (r : ℝ) (hr : 0 ≤ r) (hlt : r < (n : ℝ) - 1 / 2) :
    ∃ j0, j0 < n ∧ |(j0 : ℝ) - r| ≤ 1 / 2 ∧ sumRange n (fun j => c j * C09.rect j r) = c j0 := by
  set j0 := ⌊r + 1 / 2⌋₊ with hj0def
  have h0 : (0 : ℝ) ≤ r + 1 / 2 := by linarith
  have hle : (j0 : ℝ) ≤ r + 1 / 2 := Nat.floor_le h0
  have hlt' : r + 1 / 2 < (j0 : ℝ) + 1 := Nat.lt_floor_add_one _
  have hj0 : j0 < n := by
    have : (j0 : ℝ) < n := by linarith
    exact_mod_cast this
  refine ⟨j0, hj0, ?_, ?_⟩
  · rw [abs_le]; constructor <;> linarith
  · have key : ∀ j, C09.rect j r = if j0 = j then 1 else 0 := by
      intro j
      rw [C09.rect_formula j r hr]
      have hiff : ((j : ℝ) - 1 / 2 ≤ r ∧ r < (j : ℝ) + 1 / 2) ↔ j0 = j := by
        rw [hj0def, Nat.floor_eq_iff h0]
        constructor <;> (intro h; constructor <;> linarith [h.1, h.2])
      simp only [hiff]
    have e : sumRange n (fun j => c j * C09.rect j r) = sumRange n (fun j => (if j0 = j then (1 : ℝ) else 0) * c j) :=
      sumRange_congr _ _ _ (fun j _ => by rw [key j]; ring)
    rw [e, sumRange_delta n j0 hj0 c]

/-- … and vanishes beyond the last pixel -/
theorem stepInterp_zero (n : ℕ) (c : ℕ → ℝ) (r : ℝ) (hge : (n : ℝ) - 1 / 2 ≤ r) (hn : 0 < n) :
    sumRange n (fun j => c j * C09.rect j r) = 0 := by
  have hr : 0 ≤ r := by
    have : (1 : ℝ) ≤ n := by exact_mod_cast hn
    linarith
  have e : sumRange n (fun j => c j * C09.rect j r) = sumRange n (fun _ => (0 : ℝ)) := by
    apply sumRange_congr
    intro j hj
    rw [C09.rect_formula j r hr, if_neg]
    · ring
    · intro h
      have : (j : ℝ) + 1 ≤ n := by exact_mod_cast hj
      linarith [h.2]
  rw [e, sumRange_zero]

/-- **a-priori envelope of the degree-0 forward transform** (Daun degree 0 / forward onion peeling), every size `n`, every
    pixel `i`: for a continuous source that is `L`-Lipschitz on `r ≥ 0` and vanishes beyond the last pixel's outer edge,
    `|forward(samples)[i] − Abel f (i)| ≤ L · √((n − ½)² − i²)₊` (units of the pixel size: first order in `dr`). -/
theorem daun0_forward_error_le (n : ℕ) (hn : 0 < n) (f : ℝ → ℝ) (L : ℝ) (hL : 0 ≤ L) (hcont : Continuous f)
    (hlip : ∀ r s, 0 ≤ r → 0 ≤ s → |f r - f s| ≤ L * |r - s|)
    (hsupp : ∀ r, (n : ℝ) - 1 / 2 ≤ r → f r = 0) (i : ℕ) :
    |sumRange n (fun j => f j * (daun0 j i : ℝ)) - Abel f i| ≤ L * hc (((n : ℝ) - 1 / 2) ^ 2 - (i : ℝ) ^ 2) := by
  have hR : (0 : ℝ) ≤ (n : ℝ) - 1 / 2 := by
    have : (1 : ℝ) ≤ n := by exact_mod_cast hn
    linarith
  -- the forward product is the projection of the step interpolant
  obtain ⟨hS, hSint⟩ := abel_sumRange n (fun j => f j) (fun j => C09.rect j) (i : ℝ)
    (fun j _ => losInt_shell _ _ _ (le_max_left _ _) (by apply max_le <;> [positivity; linarith]))
  have e1 : sumRange n (fun j => f j * (daun0 j i : ℝ)) = sumRange n (fun j => f j * Abel (C09.rect j) i) :=
    sumRange_congr _ _ _ (fun j _ => by rw [C09.daun0_eq_abel])
  have hfint : LosInt f i := losInt_of_continuous hcont _ _ hR hsupp
  rw [e1, ← hS, ← abel_sub hSint hfint]
  -- the interpolation error, made explicit on negative arguments (which no line of sight visits)
  set g : ℝ → ℝ := fun r => if 0 ≤ r then sumRange n (fun j => f j * C09.rect j r) - f r else 0 with hg
  rw [abel_congr_nonneg (i : ℝ) (g := g) (fun r hr => by simp only [hg, if_pos hr])]
  have hb := abel_abs_le g ((n : ℝ) - 1 / 2) (L / 2) i hR (by positivity) ?_ ?_
  · calc |Abel g i| ≤ 2 * (L / 2) * hc (((n : ℝ) - 1 / 2) ^ 2 - (i : ℝ) ^ 2) := hb
      _ = L * hc (((n : ℝ) - 1 / 2) ^ 2 - (i : ℝ) ^ 2) := by ring
  · intro r hr
    have hr0 : 0 ≤ r := le_trans hR hr
    simp only [hg, if_pos hr0]
    rw [stepInterp_zero n _ r hr hn, hsupp r hr]; ring
  · intro r
    by_cases hr0 : 0 ≤ r
    · simp only [hg, if_pos hr0]
      by_cases hlt : r < (n : ℝ) - 1 / 2
      · obtain ⟨j0, _, hd, hval⟩ := stepInterp_eq n (fun j => f j) r hr0 hlt
        rw [hval]
        calc |f j0 - f r| ≤ L * |(j0 : ℝ) - r| := hlip _ _ (Nat.cast_nonneg _) hr0
          _ ≤ L * (1 / 2) := by apply mul_le_mul_of_nonneg_left hd hL
          _ = L / 2 := by ring
      · have hge : (n : ℝ) - 1 / 2 ≤ r := not_lt.mp hlt
        rw [stepInterp_zero n _ r hge hn, hsupp r hge]
        simp; positivity
    · simp only [hg, if_neg hr0]
      simp; positivity

/-- **general reduction**: for any basis `b_j` whose projections are the matrix entries, the forward transform of the samples
    errs by at most the chord length times the interpolation error of the basis expansion -/
theorem forward_error_le_of_interp (n : ℕ) (b : ℕ → ℝ → ℝ) (c : ℕ → ℝ) (f : ℝ → ℝ) (x R ε : ℝ) (hR : 0 ≤ R) (hε : 0 ≤ ε)
    (hb : ∀ j, j < n → LosInt (b j) x) (hf : LosInt f x)
    (hsupp : ∀ r, R ≤ r → sumRange n (fun j => c j * b j r) - f r = 0)
    (hinterp : ∀ r, 0 ≤ r → |sumRange n (fun j => c j * b j r) - f r| ≤ ε) :
    |sumRange n (fun j => c j * Abel (b j) x) - Abel f x| ≤ 2 * ε * hc (R ^ 2 - x ^ 2) := by
  obtain ⟨hS, hSint⟩ := abel_sumRange n c b x hb
  rw [← hS, ← abel_sub hSint hf]
  set g : ℝ → ℝ := fun r => if 0 ≤ r then sumRange n (fun j => c j * b j r) - f r else 0 with hg
  rw [abel_congr_nonneg x (g := g) (fun r hr => by simp only [hg, if_pos hr])]
  apply abel_abs_le g R ε x hR hε
  · intro r hr
    simp only [hg, if_pos (le_trans hR hr)]
    exact hsupp r hr
  · intro r
    by_cases hr0 : 0 ≤ r
    · simp only [hg, if_pos hr0]; exact hinterp r hr0
    · simp only [hg, if_neg hr0]; simpa using hε

/-- **degree 1** (Daun degree 1): the forward transform of the samples errs by at most `2 ε √(n² − i²)₊`, where `ε` bounds the
    error of piecewise-linear interpolation of the source on `[0, n)` (for a C² source, `ε = max|f″|/8` in pixel units:
    second order in `dr` — that classical interpolation estimate is a hypothesis here, not proved) -/
theorem daun1_forward_error_le (n : ℕ) (f : ℝ → ℝ) (ε : ℝ) (hε : 0 ≤ ε) (hcont : Continuous f)
    (hsupp : ∀ r, (n : ℝ) ≤ r → f r = 0)
    (hinterp : ∀ r, 0 ≤ r → |sumRange n (fun j => f j * C09.hat j r) - f r| ≤ ε) (i : ℕ) :
    |sumRange n (fun j => f j * (daun1 j i : ℝ)) - Abel f i| ≤ 2 * ε * hc ((n : ℝ) ^ 2 - (i : ℝ) ^ 2) := by
  have e1 : sumRange n (fun j => f j * (daun1 j i : ℝ)) = sumRange n (fun j => f j * Abel (C09.hat j) i) :=
    sumRange_congr _ _ _ (fun j _ => by rw [C09.daun1_eq_abel])
  rw [e1]
  have hhat : ∀ j, Continuous (C09.hat j) := fun j => by unfold C09.hat; fun_prop
  apply forward_error_le_of_interp n (fun j => C09.hat j) (fun j => f j) f i n ε (Nat.cast_nonneg n) hε
  · intro j hj
    apply losInt_of_continuous (hhat j) ((j : ℝ) + 1) i (by positivity)
    intro r hr
    unfold C09.hat
    apply max_eq_left
    rw [abs_of_nonneg (by linarith)]; linarith
  · exact losInt_of_continuous hcont n i (Nat.cast_nonneg n) hsupp
  · intro r hr
    rw [hsupp r hr, sub_zero]
    have e : sumRange n (fun j => f j * C09.hat j r) = sumRange n (fun _ => (0 : ℝ)) := by
      apply sumRange_congr
      intro j hj
      have : C09.hat j r = 0 := by
        unfold C09.hat
        apply max_eq_left
        have : (j : ℝ) + 1 ≤ n := by exact_mod_cast hj
        rw [abs_of_nonneg (by linarith)]; linarith
      rw [this]; ring
    rw [e, sumRange_zero]
  · exact hinterp

/-- non-vacuity: the ramp `f(r) = max (2 − r) 0` is continuous, 1-Lipschitz and vanishes beyond 2.5 = 3 − ½ -/
example : ∃ f : ℝ → ℝ, Continuous f ∧ (∀ r s, 0 ≤ r → 0 ≤ s → |f r - f s| ≤ 1 * |r - s|) ∧
    (∀ r, ((3 : ℕ) : ℝ) - 1 / 2 ≤ r → f r = 0) ∧ f 0 = 2 := by
  refine ⟨fun r => max (2 - r) 0, by fun_prop, ?_, ?_, by norm_num⟩
  · intro r s _ _
    rw [one_mul]
    calc |max (2 - r) 0 - max (2 - s) 0| ≤ |(2 - r) - (2 - s)| := abs_max_sub_max_le_abs _ _ _
      _ = |r - s| := by rw [show (2 - r) - (2 - s) = -(r - s) by ring, abs_neg]
  · intro r hr
    have : (2 : ℝ) - r ≤ 0 := by push_cast at hr; linarith
    simp [this]

end PyAbel.C02
