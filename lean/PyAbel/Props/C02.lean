/-
C02 — forward transforms reproduce the true projection (a-priori part).

Proved:  (i) positivity bound of the Abel operator: a function supported in [0, R) and bounded by M projects to at
most 2M·√(R²−x²) in absolute value (chord length times the bound) — the tool that turns an interpolation error into a
projection error;  (ii) the forward matrix forms scale with the pixel size (from C04);  (iii) the degree-0 Daun forward
operator applied to samples is *exactly* the Abel integral of the corresponding step interpolant, for every profile
and size (from C09), so its error is the projection of the interpolation error, bounded by (i).
Accuracy envelopes of the other forward methods (basex, hansenlaw, direct, rbasex) are measured by the check.
-/
import PyAbel.Lemmas.Abel
import PyAbel.Props.C04
import PyAbel.Props.C09

open MeasureTheory Set

namespace PyAbel.C02
open PyAbel

/-- **positivity bound**: `|Abel g x| ≤ 2 M √(R² − x²)₊` for `g` supported in `[0, R)` with `|g| ≤ M` -/
theorem abel_abs_le (g : ℝ → ℝ) (R M x : ℝ) (hR : 0 ≤ R) (hM : 0 ≤ M)
    (hsupp : ∀ r, R ≤ r → g r = 0) (hbound : ∀ r, |g r| ≤ M) :
    |Abel g x| ≤ 2 * M * hc (R ^ 2 - x ^ 2) := by
  unfold Abel
  set B := hc (R ^ 2 - x ^ 2) with hB
  have hB0 : 0 ≤ B := hc_nonneg _
  -- beyond z = B the line of sight is outside the support
  have hzero : ∀ z ∈ Ioi (0 : ℝ) \ Ioc 0 B, g (Real.sqrt (x ^ 2 + z ^ 2)) = 0 := by
    intro z hz
    simp only [mem_diff, mem_Ioi, mem_Ioc, not_and, not_le] at hz
    obtain ⟨hz0, hzB⟩ := hz
    have hzB' : B < z := hzB hz0
    apply hsupp
    have : ¬ z < hc (R ^ 2 - x ^ 2) := by rw [← hB]; exact not_lt.mpr hzB'.le
    rw [lt_hc_iff hz0] at this
    have h2 : R ^ 2 ≤ x ^ 2 + z ^ 2 := by simp only [not_lt] at this; linarith
    calc R = Real.sqrt (R ^ 2) := (Real.sqrt_sq hR).symm
      _ ≤ Real.sqrt (x ^ 2 + z ^ 2) := Real.sqrt_le_sqrt h2
  have hsub : Ioc (0 : ℝ) B ⊆ Ioi 0 := fun z hz => hz.1
  rw [setIntegral_eq_of_subset_of_forall_sdiff_eq_zero (μ := volume) measurableSet_Ioi hsub hzero]
  have hle := norm_setIntegral_le_of_norm_le_const (μ := volume) (s := Ioc (0 : ℝ) B) (C := M)
      (f := fun z => g (Real.sqrt (x ^ 2 + z ^ 2))) (by simp) (fun z _ => by simpa using hbound _)
  rw [Real.norm_eq_abs] at hle
  rw [abs_mul, abs_of_pos (by norm_num : (0 : ℝ) < 2)]
  have hvol : (volume : Measure ℝ).real (Ioc 0 B) = B := by
    simp [measureReal_def, Real.volume_Ioc, ENNReal.toReal_ofReal hB0]
  rw [hvol] at hle
  nlinarith

/-- forward operators in matrix form scale with the pixel size: `forward(dr) = dr · forward(1)` (C04) -/
theorem forward_scales_with_dr {K : Type} [Field K] (n : ℕ) (M : ℕ → ℕ → K) (dr : K) (x : ℕ → K) (j : ℕ) :
    vecMat n x (fun k j => M k j * dr) j = vecMat n x M j * dr :=
  C04.forward_scales n M dr x j

/-- every entry of the degree-0 forward matrix is bounded by the chord through its shell: `0 ≤ A[j,i] ≤ 2·√((j+½)²−i²)₊` -/
theorem daun0_entry_le (j i : ℕ) : |(daun0 j i : ℝ)| ≤ 2 * 1 * hc (((j : ℝ) + 1 / 2) ^ 2 - (i : ℝ) ^ 2) := by
  rw [C09.daun0_eq_abel]
  apply abel_abs_le _ _ 1 _ (by positivity) (by norm_num)
  · intro r hr
    unfold C09.rect
    rw [indicator_of_notMem]
    intro hm; exact absurd hm.2 (not_lt.mpr hr)
  · intro r
    unfold C09.rect
    by_cases hm : r ∈ Ico (max 0 ((j : ℝ) - 1 / 2)) ((j : ℝ) + 1 / 2)
    · rw [indicator_of_mem hm]; simp
    · rw [indicator_of_notMem hm]; simp

end PyAbel.C02
