/-
C01 — inverse transforms recover the source (the part that is linear algebra).

(i)  exactness on the span: for the methods that build both directions from one basis, the inverse applied to the model's
     forward image of any coefficient vector returns that vector (daun degrees 0–2 by the triangular solve, C03; with the
     degree-0 entries proved to be the Abel integrals of the shells, C09: *the exact projection of any step profile is
     inverted exactly at every pixel, at every size*);
(ii) reduction of the accuracy envelope to the forward consistency error: for any inverse operator T with T·A = 1,
     ‖T P − f‖∞ ≤ ‖T‖∞ · ‖P − A f‖∞.
The envelope itself on smooth inputs (ill-posed inverse problem) is measured by the check against frozen baselines.
-/
import PyAbel.Props.C03
import PyAbel.Props.C09
import PyAbel.Props.C02
import PyAbel.Props.C13
import Mathlib.Algebra.Order.BigOperators.Ring.Finset
import Mathlib.Algebra.Order.BigOperators.Group.Finset

namespace PyAbel.C01
open PyAbel Finset

/-- **reduction lemma**: if `T` inverts the forward matrix `A` exactly, the reconstruction error of any data `P`
    for any source `f` is at most the operator ∞-norm (row sum) times the consistency error `P − A f` -/
theorem inverse_error_le (n : ℕ) (T A : ℕ → ℕ → ℝ)
    (hTA : ∀ i j, i < n → j < n → ∑ k ∈ range n, T i k * A k j = if i = j then 1 else 0)
    (f P : ℕ → ℝ) (ε : ℝ) (hres : ∀ k, k < n → |P k - ∑ j ∈ range n, A k j * f j| ≤ ε)
    (i : ℕ) (hi : i < n) :
    |∑ k ∈ range n, T i k * P k - f i| ≤ (∑ k ∈ range n, |T i k|) * ε := by
  have hf : ∑ k ∈ range n, T i k * ∑ j ∈ range n, A k j * f j = f i := by
    simp_rw [Finset.mul_sum]
    rw [Finset.sum_comm]
    have : ∀ j ∈ range n, ∑ k ∈ range n, T i k * (A k j * f j) = (if i = j then 1 else 0) * f j := by
      intro j hj
      rw [← hTA i j hi (mem_range.mp hj), Finset.sum_mul]
      apply Finset.sum_congr rfl; intro k _; ring
    rw [Finset.sum_congr rfl this]
    simp [Finset.sum_ite_eq, hi]
  have : ∑ k ∈ range n, T i k * P k - f i = ∑ k ∈ range n, T i k * (P k - ∑ j ∈ range n, A k j * f j) := by
    rw [← hf, ← Finset.sum_sub_distrib]
    apply Finset.sum_congr rfl; intro k _; ring
  rw [this]
  calc |∑ k ∈ range n, T i k * (P k - ∑ j ∈ range n, A k j * f j)|
      ≤ ∑ k ∈ range n, |T i k * (P k - ∑ j ∈ range n, A k j * f j)| := Finset.abs_sum_le_sum_abs _ _
    _ = ∑ k ∈ range n, |T i k| * |P k - ∑ j ∈ range n, A k j * f j| := by
        apply Finset.sum_congr rfl; intro k _; rw [abs_mul]
    _ ≤ ∑ k ∈ range n, |T i k| * ε := by
        apply Finset.sum_le_sum; intro k hk
        exact mul_le_mul_of_nonneg_left (hres k (mem_range.mp hk)) (abs_nonneg _)
    _ = (∑ k ∈ range n, |T i k|) * ε := by rw [Finset.sum_mul]

/-- **exact inversion of exact projections of step profiles** (daun degree 0 = onion peeling), every size:
    the data `P_i = Σ_j c_j · Abel(rect_j)(i)` — the true projection of the piecewise-constant source Σ c_j rect_j —
    is inverted to exactly `c` -/
theorem step_profile_recovered_exactly (n : ℕ) (c : ℕ → ℝ) (i : ℕ) (hi : i < n) :
    C03.daunInv n (fun j i => (daun0 j i : ℝ)) (fun (i : ℕ) => sumRange n fun j => c j * Abel (C09.rect j) (i : ℝ)) i = c i := by
  have h := (C03.daun0_roundtrip n c i hi).1
  have e : C03.daunFwd n (fun j i => (daun0 j i : ℝ)) c = fun (i : ℕ) => sumRange n fun j => c j * Abel (C09.rect j) (i : ℝ) := by
    funext k
    simp only [C03.daunFwd, vecMat]
    apply sumRange_congr; intro j _
    rw [C09.daun0_eq_abel]
  rw [← e]; exact h

/-- **a-priori envelope for inverting the exact projection of a Lipschitz source** with the degree-0 basis (Daun degree 0,
    onion peeling): whatever exact inverse `T` of the degree-0 forward matrix is used (triangular solve, stored `D = W⁻¹`),
    the reconstruction from the true Abel projection sampled at the pixels differs from the source samples by at most
    `‖T_i‖₁ · L · (n − ½)`, for every size and pixel — the reduction lemma fed with the forward envelope `C02.daun0_forward_error_le`. -/
theorem exact_projection_recovered_within (n : ℕ) (hn : 0 < n) (T : ℕ → ℕ → ℝ)
    (hT : ∀ i j, i < n → j < n → ∑ k ∈ range n, T i k * (daun0 j k : ℝ) = if i = j then 1 else 0)
    (f : ℝ → ℝ) (L : ℝ) (hL : 0 ≤ L) (hcont : Continuous f)
    (hlip : ∀ r s, 0 ≤ r → 0 ≤ s → |f r - f s| ≤ L * |r - s|)
    (hsupp : ∀ r, (n : ℝ) - 1 / 2 ≤ r → f r = 0) (i : ℕ) (hi : i < n) :
    |∑ k ∈ range n, T i k * Abel f k - f i| ≤ (∑ k ∈ range n, |T i k|) * (L * ((n : ℝ) - 1 / 2)) := by
  have hR : (0 : ℝ) ≤ (n : ℝ) - 1 / 2 := by
    have : (1 : ℝ) ≤ n := by exact_mod_cast hn
    linarith
  refine inverse_error_le n T (fun k j => (daun0 j k : ℝ)) hT (fun j => f j) (fun k => Abel f k) _ ?_ i hi
  intro k _
  have h := C02.daun0_forward_error_le n hn f L hL hcont hlip hsupp k
  rw [C13.sumRange_eq_finset] at h
  have e : ∑ j ∈ range n, (daun0 j k : ℝ) * f j = ∑ j ∈ range n, f j * (daun0 j k : ℝ) :=
    Finset.sum_congr rfl (fun j _ => mul_comm _ _)
  rw [e, abs_sub_comm]
  refine le_trans h (mul_le_mul_of_nonneg_left ?_ hL)
  calc hc (((n : ℝ) - 1 / 2) ^ 2 - (k : ℝ) ^ 2) ≤ hc (((n : ℝ) - 1 / 2) ^ 2) := hc_mono (by nlinarith [sq_nonneg (k : ℝ)])
    _ = (n : ℝ) - 1 / 2 := by rw [hc_of_nonneg (sq_nonneg _), Real.sqrt_sq hR]

/-- non-vacuity of the left-inverse hypothesis: for `n = 1` the forward matrix is `(1)` and `T = (1)` inverts it -/
private theorem daun0_zero_zero : (daun0 0 0 : ℝ) = 1 := by
  unfold daun0
  simp only [sqrt_real]
  norm_num
  rw [show (4 : ℝ) = 2 ^ 2 by norm_num, Real.sqrt_sq (by norm_num)]
  norm_num

example : ∀ i j, i < 1 → j < 1 →
    ∑ k ∈ range 1, (fun _ _ => (1 : ℝ)) i k * (daun0 j k : ℝ) = if i = j then 1 else 0 := by
  intro i j hi hj
  have : i = 0 := by omega
  have : j = 0 := by omega
  subst_vars
  simp [daun0_zero_zero]

/-! ### exactness on the range, and bounded noise amplification, for every linear inverse -/

/-- **exactness on the range of the forward model**, any method with `T·A = 1`, any size: data that *are* a forward image are
    inverted to exactly their source (the case ε = 0 of the reduction lemma) -/
theorem inverse_exact_on_range (n : ℕ) (T A : ℕ → ℕ → ℝ)
    (hTA : ∀ i j, i < n → j < n → ∑ k ∈ range n, T i k * A k j = if i = j then 1 else 0)
    (f : ℕ → ℝ) (i : ℕ) (hi : i < n) :
    ∑ k ∈ range n, T i k * (∑ j ∈ range n, A k j * f j) = f i := by
  have h := inverse_error_le n T A hTA f (fun k => ∑ j ∈ range n, A k j * f j) 0 (fun k _ => by simp) i hi
  simp only [mul_zero] at h
  have := abs_nonpos_iff.mp h
  linarith

/-- **noise amplification is bounded by the row sum**: two data sets that differ by at most `ε` at every pixel are reconstructed to
    within `‖T_i‖₁ · ε` of each other — for every linear inverse operator, with no assumption on `T` -/
theorem inverse_stability (n : ℕ) (T : ℕ → ℕ → ℝ) (P Q : ℕ → ℝ) (ε : ℝ) (h : ∀ k, k < n → |P k - Q k| ≤ ε) (i : ℕ) :
    |∑ k ∈ range n, T i k * P k - ∑ k ∈ range n, T i k * Q k| ≤ (∑ k ∈ range n, |T i k|) * ε := by
  rw [← Finset.sum_sub_distrib]
  calc |∑ k ∈ range n, (T i k * P k - T i k * Q k)|
      ≤ ∑ k ∈ range n, |T i k * P k - T i k * Q k| := Finset.abs_sum_le_sum_abs _ _
    _ = ∑ k ∈ range n, |T i k| * |P k - Q k| := by
        apply Finset.sum_congr rfl; intro k _; rw [← mul_sub, abs_mul]
    _ ≤ ∑ k ∈ range n, |T i k| * ε := by
        apply Finset.sum_le_sum; intro k hk
        exact mul_le_mul_of_nonneg_left (h k (mem_range.mp hk)) (abs_nonneg _)
    _ = (∑ k ∈ range n, |T i k|) * ε := by rw [Finset.sum_mul]

/-- the two together: noisy samples of a forward image are reconstructed to within the amplified noise -/
theorem noisy_range_recovered_within (n : ℕ) (T A : ℕ → ℕ → ℝ)
    (hTA : ∀ i j, i < n → j < n → ∑ k ∈ range n, T i k * A k j = if i = j then 1 else 0)
    (f e : ℕ → ℝ) (ε : ℝ) (he : ∀ k, k < n → |e k| ≤ ε) (i : ℕ) (hi : i < n) :
    |∑ k ∈ range n, T i k * ((∑ j ∈ range n, A k j * f j) + e k) - f i| ≤ (∑ k ∈ range n, |T i k|) * ε := by
  refine inverse_error_le n T A hTA f _ ε (fun k hk => ?_) i hi
  simpa using he k hk

end PyAbel.C01
