/-
C04 — every transform is a fixed linear, row-independent operator scaling with dr.

All matrix methods (basex, daun, Dasch family, rbasex radial transforms, linbasex's least-squares
operator) act on a row as `x ↦ x · M` or `x ↦ M x` for a matrix that does not depend on the data;
daun's unregularised inverse is a triangular solve.  Linearity and dr scaling are proved for
these forms over any field; positive homogeneity for the NNLS solvers over ℝ.
-/
import PyAbel.Lemmas.Linalg
import PyAbel.Props.C17

set_option linter.unusedSectionVars false

namespace PyAbel.C04
open PyAbel

variable {K : Type} [Field K]

/-! ### linearity -/

theorem rowMatrix_linear (n : ℕ) (M : ℕ → ℕ → K) (a b : K) (x y : ℕ → K) (j : ℕ) :
    vecMat n (fun k => a * x k + b * y k) M j = a * vecMat n x M j + b * vecMat n y M j :=
  vecMat_linear n M a b x y j

theorem operator_linear (n : ℕ) (D : ℕ → ℕ → K) (a b : K) (x y : ℕ → K) (i : ℕ) :
    matVec n D (fun k => a * x k + b * y k) i = a * matVec n D x i + b * matVec n D y i :=
  matVec_linear n D a b x y i

/-- the triangular solve used by daun's unregularised inverse is linear in the data -/
theorem triangular_solve_linear (n : ℕ) (U : ℕ → ℕ → K) (a b : K) (d1 d2 : ℕ → K) (i : ℕ) :
    (backSubst U (fun k => a * d1 k + b * d2 k) n).getD i 0
      = a * (backSubst U d1 n).getD i 0 + b * (backSubst U d2 n).getD i 0 :=
  backSubstAux_linear U d1 d2 a b n n i

/-! ### each output row depends only on the same input row

An image transform is the row map applied to every row: -/

def applyRows (f : (ℕ → K) → (ℕ → K)) (X : ℕ → ℕ → K) : ℕ → ℕ → K := fun r => f (X r)

theorem row_independent (f : (ℕ → K) → (ℕ → K)) (X Y : ℕ → ℕ → K) (r : ℕ) (h : X r = Y r) :
    applyRows f X r = applyRows f Y r := by simp [applyRows, h]

/-! ### dr scaling: forward ∝ dr, inverse ∝ 1/dr  (as coded: `recon *= dr` / `recon /= dr`) -/

theorem forward_scales (n : ℕ) (M : ℕ → ℕ → K) (dr : K) (x : ℕ → K) (j : ℕ) :
    vecMat n x (fun k j => M k j * dr) j = vecMat n x M j * dr := by
  simp only [vecMat]
  rw [mul_comm _ dr, ← sumRange_smul]
  apply sumRange_congr; intro k _; ring

theorem inverse_scales (n : ℕ) (U : ℕ → ℕ → K) (dr : K) (d : ℕ → K) (i : ℕ) :
    (backSubst U (fun k => (1 / dr) * d k + 0 * d k) n).getD i 0 = (1 / dr) * (backSubst U d n).getD i 0 := by
  rw [triangular_solve_linear]; ring

/-! ### the non-negativity solvers are positively homogeneous -/

open PyAbel.C17 in
theorem nnls_pos_homogeneous (m n : ℕ) (A : ℕ → ℕ → ℝ) (b x : ℕ → ℝ) (c : ℝ) (hc : 0 < c)
    (hx : IsNNLS m n A b x) : IsNNLS m n A (fun i => c * b i) (fun j => c * x j) := by
  have scale : ∀ y : ℕ → ℝ, resid m n A (fun i => c * b i) (fun j => c * y j) = c ^ 2 * resid m n A b y := by
    intro y
    unfold resid
    rw [← sumRange_smul]
    apply sumRange_congr; intro i _
    have : matVec n A (fun j => c * y j) i = c * matVec n A y i := by
      simp only [matVec]; rw [← sumRange_smul]; apply sumRange_congr; intro j _; ring
    rw [this]; ring
  refine ⟨fun j hj => mul_nonneg hc.le (hx.1 j hj), fun y hy => ?_⟩
  have hy' : ∀ j, j < n → 0 ≤ y j / c := fun j hj => div_nonneg (hy j hj) hc.le
  have h1 := hx.2 (fun j => y j / c) hy'
  have h2 := scale (fun j => y j / c)
  have h3 : (fun j => c * (y j / c)) = y := by funext j; field_simp
  rw [h3] at h2
  rw [scale x, h2]
  exact mul_le_mul_of_nonneg_left h1 (sq_nonneg c)

end PyAbel.C04
