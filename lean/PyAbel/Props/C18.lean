/-
C18 — public functions leave their arguments intact.

Effect IR and certificates: PyAbel/Gen/Effects.lean, regenerated from /repo by harness/gen_effects.py on every check.
(1) soundness of the certificate check (`no_write_to_clean_param`): in every execution of a unit's statements — any
    order, any repetition, any subset, callees behaving within their summaries — a parameter that the checked
    certificate does not list as written is never modified in place;
(2) the certificates for the current source are accepted (`certificates_check`, kernel-decided);
(3) the only parameters of public functions listed as possibly written are number-valued (`only_scalars_written`);
    they are flagged because `x += …` on a Python number is indistinguishable, without types, from an in-place array
    update (the runtime suite shows they are not modified);
(4) no public function returns an object that shares memory with a module-level cache (`results_do_not_alias_caches`),
    except the documented-internal basis getters.
-/
import PyAbel.Gen.Effects
import Mathlib.Tactic.SplitIfs
import Mathlib.Tactic.Linarith

namespace PyAbel.C18
open PyAbel.Effects PyAbel.Gen

/-! ### 1. semantics and soundness -/

/-- abstract memory: which location each variable denotes, and how often each location was modified in place -/
structure Mem where
  loc : Nat → Nat
  ver : Nat → Nat

def upd (f : Nat → Nat) (a b : Nat) : Nat → Nat := fun x => if x = a then b else f x

/-- one statement, possibly not executed at all (`skip`); a callee may write / return only what its summary allows;
    objects created by a call live at locations `≥ nvars`, i.e. distinct from every root's object -/
inductive Step (ss : List Summary) (nvars : Nat) : Mem → Stmt → Mem → Prop
  | skip (m s) : Step ss nvars m s m
  | share (m d s) : Step ss nvars m (.share d s) ⟨upd m.loc d (m.loc s), m.ver⟩
  | write (m v) : Step ss nvars m (.write v) ⟨m.loc, upd m.ver (m.loc v) (m.ver (m.loc v) + 1)⟩
  | callW (m g j v) (h : calleeWrites ss g j = true) :
      Step ss nvars m (.call g j v) ⟨m.loc, upd m.ver (m.loc v) (m.ver (m.loc v) + 1)⟩
  | callretAlias (m d g j v) (h : calleeReturns ss g j = true) :
      Step ss nvars m (.callret d g j v) ⟨upd m.loc d (m.loc v), m.ver⟩
  | callretFresh (m d g j v l) (hl : nvars ≤ l) : Step ss nvars m (.callret d g j v) ⟨upd m.loc d l, m.ver⟩

/-- an execution: any finite sequence of the unit's statements -/
inductive Exec (ss : List Summary) (u : Effects.Unit) : Mem → Mem → Prop
  | nil (m) : Exec ss u m m
  | cons (m m' m'' s) (hs : s ∈ u.stmts) (h : Step ss u.nvars m s m') (t : Exec ss u m' m'') : Exec ss u m m''

def Mem.init : Mem := ⟨id, fun _ => 0⟩

theorem mem_edges_share (ss : List Summary) (u : Effects.Unit) (d s : Nat) (h : Stmt.share d s ∈ u.stmts) :
    (d, s) ∈ edges ss u := by
  simp only [edges, List.mem_filterMap]
  exact ⟨_, h, rfl⟩

theorem mem_edges_callret (ss : List Summary) (u : Effects.Unit) (d g j v : Nat) (h : Stmt.callret d g j v ∈ u.stmts)
    (hr : calleeReturns ss g j = true) : (d, v) ∈ edges ss u := by
  simp only [edges, List.mem_filterMap]
  exact ⟨_, h, by simp [hr]⟩

/-- **Soundness.**  If the certificate passes the consistency checks, then whatever happens during an execution of
    the unit, a parameter outside `computedWrites` keeps version 0: it is never modified in place. -/
theorem no_write_to_clean_param (ss : List Summary) (u : Effects.Unit) (pts : Nat → List Nat)
    (hcons : consistent u.roots (edges ss u) pts = true)
    (hfix : rootsFixed u.roots (dests u) = true)
    (hroots : u.roots.all (· < u.nvars) = true)
    (m : Mem) (hexec : Exec ss u Mem.init m)
    (i : Nat) (hi : i < u.params.length) (hclean : i ∉ computedWrites ss u pts) :
    m.ver i = 0 := by
  -- invariant
  have inv : ∀ m0 m1, Exec ss u m0 m1 →
      ((∀ v r, r ∈ u.roots → m0.loc v = r → r ∈ pts v) ∧ (∀ r ∈ u.roots, m0.loc r = r) ∧ m0.ver i = 0) →
      ((∀ v r, r ∈ u.roots → m1.loc v = r → r ∈ pts v) ∧ (∀ r ∈ u.roots, m1.loc r = r) ∧ m1.ver i = 0) := by
    intro m0 m1 h
    induction h with
    | nil m => exact id
    | cons m m' m'' s hs hstep _ ih =>
      intro ⟨hI, hR, hV⟩
      apply ih
      have hcons' := hcons
      simp only [consistent, Bool.and_eq_true, List.all_eq_true] at hcons'
      obtain ⟨hself, hedge⟩ := hcons'
      have hi_root : i ∈ u.roots := by simp [Unit.roots, hi]
      -- a rebinding of `d` never hits a root
      have notroot : ∀ d, d ∈ dests u → d ∉ u.roots := by
        intro d hd hr
        simp only [rootsFixed, List.all_eq_true] at hfix
        have := hfix d hd
        simp [hr] at this
      -- a write through `v` cannot reach parameter i
      have wr_safe : ∀ v, v ∈ writtenVars ss u → m.loc v ≠ i := by
        intro v hv hloc
        apply hclean
        have hmem : i ∈ pts v := hI v i hi_root hloc
        simp only [computedWrites, List.mem_filter, List.mem_range, List.contains_eq_mem, List.mem_flatMap,
          decide_eq_true_eq]
        exact ⟨hi, v, hv, hmem⟩
      -- rebinding d := (object of s) keeps the invariant when pts s ⊆ pts d
      have rebind : ∀ d s, d ∈ dests u → (∀ x, x ∈ pts s → x ∈ pts d) →
          ((∀ v r, r ∈ u.roots → upd m.loc d (m.loc s) v = r → r ∈ pts v) ∧
            (∀ r ∈ u.roots, upd m.loc d (m.loc s) r = r)) := by
        intro d s hd hsub
        constructor
        · intro v r hr hloc
          simp only [upd] at hloc
          split_ifs at hloc with hvd
          · subst hvd; exact hsub r (hI s r hr hloc)
          · exact hI v r hr hloc
        · intro r hr
          simp only [upd]
          have : r ≠ d := fun h => notroot d hd (h ▸ hr)
          simp [this, hR r hr]
      cases hstep with
      | skip => exact ⟨hI, hR, hV⟩
      | share d s =>
        have hd : d ∈ dests u := by simp only [dests, List.mem_filterMap]; exact ⟨_, hs, rfl⟩
        have hsub : ∀ x, x ∈ pts s → x ∈ pts d := by
          intro x hx
          have := hedge (d, s) (mem_edges_share ss u d s hs)
          simp only [List.all_eq_true, List.contains_eq_mem, decide_eq_true_eq] at this
          exact this x hx
        exact ⟨(rebind d s hd hsub).1, (rebind d s hd hsub).2, hV⟩
      | write v =>
        have hv : v ∈ writtenVars ss u := by simp only [writtenVars, List.mem_filterMap]; exact ⟨_, hs, rfl⟩
        refine ⟨hI, hR, ?_⟩
        simp only [upd]
        have := wr_safe v hv
        simp [Ne.symm this, hV]
      | callW g j v hw =>
        have hv : v ∈ writtenVars ss u := by
          simp only [writtenVars, List.mem_filterMap]; exact ⟨_, hs, by simp [hw]⟩
        refine ⟨hI, hR, ?_⟩
        simp only [upd]
        have := wr_safe v hv
        simp [Ne.symm this, hV]
      | callretAlias d g j v hr =>
        have hd : d ∈ dests u := by simp only [dests, List.mem_filterMap]; exact ⟨_, hs, rfl⟩
        have hsub : ∀ x, x ∈ pts v → x ∈ pts d := by
          intro x hx
          have := hedge (d, v) (mem_edges_callret ss u d g j v hs hr)
          simp only [List.all_eq_true, List.contains_eq_mem, decide_eq_true_eq] at this
          exact this x hx
        exact ⟨(rebind d v hd hsub).1, (rebind d v hd hsub).2, hV⟩
      | callretFresh d g j v l hl =>
        have hd : d ∈ dests u := by simp only [dests, List.mem_filterMap]; exact ⟨_, hs, rfl⟩
        refine ⟨?_, ?_, hV⟩
        · intro w r hr hloc
          simp only [upd] at hloc
          split_ifs at hloc with hwd
          · -- a fresh location is not a root's location
            simp only [List.all_eq_true, decide_eq_true_eq] at hroots
            have := hroots r hr
            omega
          · exact hI w r hr hloc
        · intro r hr
          simp only [upd]
          have : r ≠ d := fun h => notroot d hd (h ▸ hr)
          simp [this, hR r hr]
  have h0 : (∀ v r, r ∈ u.roots → Mem.init.loc v = r → r ∈ pts v) ∧ (∀ r ∈ u.roots, Mem.init.loc r = r) ∧ Mem.init.ver i = 0 := by
    refine ⟨?_, fun _ _ => rfl, rfl⟩
    intro v r hr hloc
    simp only [Mem.init, id] at hloc
    subst hloc
    simp only [consistent, Bool.and_eq_true, List.all_eq_true] at hcons
    have := hcons.1 v hr
    simpa using this
  exact (inv _ _ hexec h0).2.2

/-! ### 2. the certificates generated for the current source pass the check -/

theorem certificates_check : checkAll effectUnits effectCerts = true := by decide +kernel

/-! ### 3. what is listed as possibly written, among public functions -/

/-- number-valued parameters on which the source uses `+=`-style rebinding (documented types in the docstrings) -/
def scalarParams : List (String × String) :=
  [("index_coords", "origin"), ("Distributions", "origin"), ("rbasex_transform", "origin"), ("harmonics", "origin"),
   ("rharmonics", "origin"), ("Ibeta", "origin"), ("rIbeta", "origin"), ("rcos", "origin"),
   ("Polynomial", "r_min"), ("Polynomial", "r_0"), ("Polynomial", "s")]

theorem only_scalars_written :
    ((effectUnits.zip effectCerts).all fun uc =>
      !uc.1.isPublic || uc.2.summary.writes.all fun i => scalarParams.contains (uc.1.name, uc.1.params.getD i "?")) = true := by
  decide +kernel

/-! ### 4. results do not alias module-level caches -/

/-- functions documented as internal that hand out the cached basis itself -/
def internalGetters : List String :=
  ["abel.basex.get_bs_cached", "abel.dasch.get_bs_cached", "abel.daun.get_bs_cached", "abel.linbasex.get_bs_cached",
   "abel.rbasex.get_bs_cached", "abel.transform.get_basis_dir"]

theorem results_do_not_alias_caches :
    ((effectUnits.zip effectCerts).all fun uc =>
      !uc.1.isPublic || !returnsCache uc.1 uc.2 || internalGetters.contains uc.1.qual) = true := by
  decide +kernel

/-- non-vacuity: the table covers the library and contains the transform functions -/
theorem table_covers : 100 ≤ effectUnits.length ∧
    (effectUnits.any fun u => u.name == "hansenlaw_transform") = true ∧
    (effectUnits.any fun u => u.name == "toPES") = true := by decide +kernel

end PyAbel.C18
