/-
C09 — the two-point deconvolution operator (abel/dasch.py `_bs_two_point`, Dasch Eqs. (8), (9)) is an exact inverse Abel integral:
applied to any samples it gives, at every pixel, the inverse Abel integral of their interpolant — piecewise linear between the samples
(continued linearly to zero beyond the last one), and on the axis row the even parabola on the first interval that Dasch's special cases
`D[0,0] = 2/π`, `D[0,1] = J(0,1) − 2/π` stand for.

The inverse Abel integral `−(1/π) ∫_r^∞ P′(x) dx/√(x² − r²)` is taken along the line of sight (`x = √(r² + t²)`), where it is
`−(1/π) ∫₀^∞ P′(ρ)/ρ dt` and has no singularity (`invAbel_eq_textbook`, at the end, proves the two forms equal); the logarithms of Eq. (9) are the integrals of `1/ρ` over the shells
(`Lemmas/AbelFrac.lean`, `Fint_one`).
-/
import PyAbel.Props.C10SPoly
import PyAbel.Model.Dasch
import PyAbel.Props.C02Rbasex
import Mathlib.Analysis.SpecialFunctions.Integrals.Basic
import Mathlib.MeasureTheory.Function.JacobianOneDim
open MeasureTheory Set
namespace PyAbel.C09
open PyAbel PyAbel.C10

/-- the inverse Abel integral `−(1/π) ∫_r^∞ P′(x) dx / √(x² − r²)` written along the line of sight (`x = √(r² + t²)`,
    `dx/√(x² − r²) = dt/x`): `−(1/π) ∫₀^∞ P′(ρ)/ρ dt`, `ρ = √(r² + t²)` -/
noncomputable def invAbel (dP : ℝ → ℝ) (r : ℝ) : ℝ := -(1 / (2 * Real.pi)) * Abel (fun ρ => dP ρ / ρ) r

/-- line-of-sight integral of `1/ρ` over a shell: the logarithms of Dasch Eq. (9) -/
theorem abel_shell_inv (a b x : ℝ) (hx : 0 < x) (ha : 0 ≤ a) (hab : a ≤ b) :
    Abel (indicator (Ico a b) (fun ρ => 1 / ρ)) x
      = 2 * (Real.log (hc (b ^ 2 - x ^ 2) + los x (hc (b ^ 2 - x ^ 2))) - Real.log (hc (a ^ 2 - x ^ 2) + los x (hc (a ^ 2 - x ^ 2)))) := by
  rw [abel_shellFun _ a b x ha hab]
  congr 1
  have e : ∀ z, (1 : ℝ) / los x z = (1 / x) * fr x z ^ (1 : ℤ) := by
    intro z; unfold fr; rw [zpow_one]; field_simp
  simp only [e]
  rw [intervalIntegral.integral_const_mul, ← Fz_sub hx 1, show ((1 : ℤ)) = ((1 : ℕ) : ℤ) by norm_num, Fz_natCast, Fz_natCast,
    Fint_one hx _ (hc_nonneg _), Fint_one hx _ (hc_nonneg _)]
  field_simp
  ring

/-- a radial function restricted to a shell is integrable along the line of sight if it is continuous along it -/
theorem losInt_shellFun (g : ℝ → ℝ) (a b x : ℝ) (ha : 0 ≤ a) (hab : a ≤ b) (hg : Continuous fun z => g (los x z)) :
    LosInt (indicator (Ico a b) g) x := by
  unfold LosInt
  have hb : 0 ≤ b := le_trans ha hab
  have hI : IntegrableOn (fun z => g (los x z)) (Ico (hc (a ^ 2 - x ^ 2)) (hc (b ^ 2 - x ^ 2))) :=
    (hg.integrableOn_Icc).mono_set Ico_subset_Icc_self
  have h2 := ((integrable_indicator_iff measurableSet_Ico).mpr hI).integrableOn (s := Ioi (0 : ℝ))
  refine h2.congr_fun ?_ measurableSet_Ioi
  intro z hz
  have h := radius_mem_Ico_iff (x := x) ha hb (mem_Ioi.mp hz)
  by_cases hm : z ∈ Ico (hc (a ^ 2 - x ^ 2)) (hc (b ^ 2 - x ^ 2))
  · show _ = indicator (Ico a b) g (Real.sqrt (x ^ 2 + z ^ 2))
    rw [indicator_of_mem hm, indicator_of_mem (h.mpr hm)]; rfl
  · show _ = indicator (Ico a b) g (Real.sqrt (x ^ 2 + z ^ 2))
    rw [indicator_of_notMem hm, indicator_of_notMem (fun hh => hm (h.mp hh))]

theorem losInt_shell_inv (a b x : ℝ) (hx : 0 < x) (ha : 0 ≤ a) (hab : a ≤ b) : LosInt (indicator (Ico a b) (fun ρ => 1 / ρ)) x := by
  apply losInt_shellFun _ a b x ha hab
  have hl := los_continuous x
  exact continuous_const.div hl (fun z => (los_pos_of_pos hx z).ne')

/-- for an integer pixel `i ≥ 1` and the integer shell `[j, j+1)`: `2π·J(i, j)` of Dasch Eq. (9) if the shell lies outside `i`, 0 inside -/
theorem abel_shell_inv_nat (i j : ℕ) (hi : 0 < i) :
    Abel (indicator (Ico (j : ℝ) ((j : ℝ) + 1)) (fun ρ => 1 / ρ)) i = if i ≤ j then 2 * Real.pi * (tpJ i j : ℝ) else 0 := by
  have hx : (0 : ℝ) < (i : ℝ) := by exact_mod_cast hi
  rw [abel_shell_inv _ _ _ hx (Nat.cast_nonneg j) (by linarith)]
  by_cases h : i ≤ j
  · rw [if_pos h]
    have hij : (i : ℝ) ≤ (j : ℝ) := by exact_mod_cast h
    have ea : (0 : ℝ) ≤ (j : ℝ) ^ 2 - (i : ℝ) ^ 2 := by nlinarith
    have eb : (0 : ℝ) ≤ ((j : ℝ) + 1) ^ 2 - (i : ℝ) ^ 2 := by nlinarith
    have la : los (i : ℝ) (hc ((j : ℝ) ^ 2 - (i : ℝ) ^ 2)) = (j : ℝ) := by
      unfold los; rw [hc_of_nonneg ea, Real.sq_sqrt ea]
      rw [show (i : ℝ) ^ 2 + ((j : ℝ) ^ 2 - (i : ℝ) ^ 2) = (j : ℝ) ^ 2 by ring, Real.sqrt_sq (Nat.cast_nonneg j)]
    have lb : los (i : ℝ) (hc (((j : ℝ) + 1) ^ 2 - (i : ℝ) ^ 2)) = (j : ℝ) + 1 := by
      unfold los; rw [hc_of_nonneg eb, Real.sq_sqrt eb]
      rw [show (i : ℝ) ^ 2 + (((j : ℝ) + 1) ^ 2 - (i : ℝ) ^ 2) = ((j : ℝ) + 1) ^ 2 by ring, Real.sqrt_sq (by positivity)]
    rw [la, lb, hc_of_nonneg ea, hc_of_nonneg eb]
    unfold tpJ
    simp only [sqrt_real, log_real, pi_real]
    have hden : (0 : ℝ) < Real.sqrt ((j : ℝ) ^ 2 - (i : ℝ) ^ 2) + (j : ℝ) := by
      have : (0 : ℝ) < (j : ℝ) := lt_of_lt_of_le hx hij
      have := Real.sqrt_nonneg ((j : ℝ) ^ 2 - (i : ℝ) ^ 2); linarith
    have hnum : (0 : ℝ) < Real.sqrt (((j : ℝ) + 1) ^ 2 - (i : ℝ) ^ 2) + ((j : ℝ) + 1) := by
      have := Real.sqrt_nonneg (((j : ℝ) + 1) ^ 2 - (i : ℝ) ^ 2); positivity
    push_cast
    rw [Real.log_div hnum.ne' hden.ne']
    field_simp
  · rw [if_neg h]
    have hji : (j : ℝ) + 1 ≤ (i : ℝ) := by exact_mod_cast (Nat.succ_le_of_lt (not_le.mp h))
    have ea : (j : ℝ) ^ 2 - (i : ℝ) ^ 2 ≤ 0 := by nlinarith [Nat.cast_nonneg (α := ℝ) j]
    have eb : ((j : ℝ) + 1) ^ 2 - (i : ℝ) ^ 2 ≤ 0 := by nlinarith [Nat.cast_nonneg (α := ℝ) j]
    rw [hc_of_nonpos ea, hc_of_nonpos eb]; ring

/-- summation by parts -/
theorem sum_by_parts (n : ℕ) (P T : ℕ → ℝ) :
    sumRange n (fun j => (P (j + 1) - P j) * T j)
      = P n * (if n = 0 then 0 else T (n - 1)) - sumRange n (fun j => P j * (T j - (if j = 0 then 0 else T (j - 1)))) := by
  induction n with
  | zero => simp [sumRange]
  | succ n ih =>
    rw [sumRange_succ, sumRange_succ, ih]
    simp only [Nat.add_sub_cancel, if_neg (Nat.succ_ne_zero n)]
    ring

/-- the samples, continued by zeros -/
def padded (n : ℕ) (P : ℕ → ℝ) (j : ℕ) : ℝ := if j < n then P j else 0

/-- derivative of the piecewise-linear interpolant through the samples `(j, P j)`, `j < n`, continued linearly to 0 at `n` -/
noncomputable def dPlin (n : ℕ) (P : ℕ → ℝ) (ρ : ℝ) : ℝ :=
  sumRange n (fun j => (padded n P (j + 1) - padded n P j) * indicator (Ico (j : ℝ) ((j : ℝ) + 1)) 1 ρ)

/-- **two-point operator** (Dasch Eqs. (8), (9)), rows `i ≥ 1`: the operator applied to any samples is the inverse Abel integral, at
    `r = i`, of the piecewise-linear interpolant of the samples -/
theorem twoPoint_eq_invAbel (n i : ℕ) (hi : 0 < i) (P : ℕ → ℝ) :
    sumRange n (fun j => (twoPointD i j : ℝ) * P j) = invAbel (dPlin n P) i := by
  have hx : (0 : ℝ) < (i : ℝ) := by exact_mod_cast hi
  set c : ℕ → ℝ := fun j => padded n P (j + 1) - padded n P j with hc'
  set T : ℕ → ℝ := fun j => if i ≤ j then (tpJ i j : ℝ) else 0 with hT
  have hfun : (fun ρ => dPlin n P ρ / ρ) = fun ρ => sumRange n (fun j => c j * indicator (Ico (j : ℝ) ((j : ℝ) + 1)) (fun ρ => 1 / ρ) ρ) := by
    funext ρ
    unfold dPlin
    rw [div_eq_mul_one_div, PyAbel.C02.sumRange_mul_right]
    apply sumRange_congr
    intro j _
    by_cases hm : ρ ∈ Ico (j : ℝ) ((j : ℝ) + 1)
    · rw [indicator_of_mem hm, indicator_of_mem hm]; simp only [hc', Pi.one_apply]; ring
    · rw [indicator_of_notMem hm, indicator_of_notMem hm]; simp
  unfold invAbel
  rw [hfun, (abel_sumRange n c (fun j => indicator (Ico (j : ℝ) ((j : ℝ) + 1)) (fun ρ => 1 / ρ)) i
    (fun j _ => losInt_shell_inv _ _ _ hx (Nat.cast_nonneg j) (by linarith))).1]
  have h1 : sumRange n (fun j => c j * Abel (indicator (Ico (j : ℝ) ((j : ℝ) + 1)) (fun ρ => 1 / ρ)) i)
      = 2 * Real.pi * sumRange n (fun j => c j * T j) := by
    rw [← sumRange_smul]
    apply sumRange_congr
    intro j _
    rw [abel_shell_inv_nat i j hi]
    simp only [hT]
    split_ifs <;> ring
  rw [h1, sum_by_parts n (padded n P) T]
  have hpn : padded n P n = 0 := by unfold padded; rw [if_neg (lt_irrefl n)]
  rw [hpn, zero_mul, zero_sub]
  have hpi : Real.pi ≠ 0 := Real.pi_ne_zero
  have h2 : sumRange n (fun j => padded n P j * (T j - (if j = 0 then 0 else T (j - 1)))) = sumRange n (fun j => (twoPointD i j : ℝ) * P j) := by
    apply sumRange_congr
    intro j hj
    unfold padded twoPointD
    rw [if_pos hj]
    have a1 : ¬ (i = 0 ∧ j = 0) := fun h => by omega
    have a2 : ¬ (i = 0 ∧ j = 1) := fun h => by omega
    rw [if_neg a1, if_neg a2]
    simp only [hT]
    by_cases hji : j < i
    · have b1 : ¬ i ≤ j := by omega
      have b2 : ¬ i ≤ j - 1 := by omega
      rw [if_pos hji, if_neg b1]
      by_cases h0 : j = 0
      · rw [if_pos h0]; ring
      · rw [if_neg h0, if_neg b2]; ring
    · rw [if_neg hji]
      have b1 : i ≤ j := by omega
      have h0 : ¬ j = 0 := by omega
      rw [if_pos b1, if_neg h0]
      by_cases he : i = j
      · have b2 : ¬ i ≤ j - 1 := by omega
        rw [if_pos he, if_neg b2]; ring
      · have b2 : i ≤ j - 1 := by omega
        rw [if_neg he, if_pos b2]; ring
  rw [h2]
  field_simp

/-! the axis row `i = 0` (Dasch's special cases `D[0,0] = 2/π`, `D[0,1] = J(0,1) − 2/π`): on the first interval the interpolant is the
    even parabola `P₀ + (P₁ − P₀) x²` (zero slope on the axis), linear beyond -/

/-- `P′(ρ)/ρ` of that interpolant on `[j, j+1)`, per unit of `P_{j+1} − P_j`: the constant 2 on the first interval, `1/ρ` beyond -/
noncomputable def axisWeight (j : ℕ) : ℝ → ℝ :=
  if j = 0 then indicator (Ico (0 : ℝ) 1) (fun _ => 2) else indicator (Ico (j : ℝ) ((j : ℝ) + 1)) (fun ρ => 1 / ρ)

theorem losInt_axisWeight (j : ℕ) : LosInt (axisWeight j) 0 := by
  unfold axisWeight
  by_cases h : j = 0
  · rw [if_pos h]
    exact losInt_shellFun _ 0 1 0 le_rfl (by norm_num) continuous_const
  · rw [if_neg h]
    unfold LosInt
    have hj : (0 : ℝ) < (j : ℝ) := by exact_mod_cast Nat.pos_of_ne_zero h
    -- along the axis ρ = z, and 1/z is continuous on [j, j+1]
    have hI : IntegrableOn (fun z : ℝ => 1 / z) (Ico (j : ℝ) ((j : ℝ) + 1)) := by
      have hcI : ContinuousOn (fun z : ℝ => 1 / z) (Icc (j : ℝ) ((j : ℝ) + 1)) := by
        apply ContinuousOn.div continuousOn_const continuousOn_id
        intro z hz; exact (lt_of_lt_of_le hj hz.1).ne'
      exact hcI.integrableOn_Icc.mono_set Ico_subset_Icc_self
    have h2 := ((integrable_indicator_iff measurableSet_Ico).mpr hI).integrableOn (s := Ioi (0 : ℝ))
    refine h2.congr_fun ?_ measurableSet_Ioi
    intro z hz
    have e : Real.sqrt ((0 : ℝ) ^ 2 + z ^ 2) = z := by rw [zero_pow two_ne_zero, zero_add, Real.sqrt_sq (le_of_lt hz)]
    show _ = indicator (Ico (j : ℝ) ((j : ℝ) + 1)) (fun ρ => 1 / ρ) (Real.sqrt ((0 : ℝ) ^ 2 + z ^ 2))
    rw [e]

theorem abel_axisWeight (j : ℕ) :
    Abel (axisWeight j) 0 = 2 * Real.pi * (if j = 0 then 2 / Real.pi else (tpJ 0 j : ℝ)) := by
  unfold axisWeight
  by_cases h : j = 0
  · rw [if_pos h, if_pos h]
    have : indicator (Ico (0 : ℝ) 1) (fun _ => (2 : ℝ)) = fun r => 2 * indicator (Ico (0 : ℝ) 1) 1 r := by
      funext r
      by_cases hm : r ∈ Ico (0 : ℝ) 1
      · rw [indicator_of_mem hm, indicator_of_mem hm]; simp
      · rw [indicator_of_notMem hm, indicator_of_notMem hm]; simp
    rw [this, abel_const_mul, abel_shell 0 1 0 le_rfl (by norm_num)]
    have e1 : hc ((1 : ℝ) ^ 2 - 0 ^ 2) = 1 := by rw [hc_of_nonneg (by norm_num)]; norm_num
    have e0 : hc ((0 : ℝ) ^ 2 - 0 ^ 2) = 0 := by rw [hc_of_nonpos (by norm_num)]
    rw [e1, e0]
    field_simp; ring
  · rw [if_neg h, if_neg h]
    have hj : (0 : ℝ) < (j : ℝ) := by exact_mod_cast Nat.pos_of_ne_zero h
    rw [abel_shellFun _ _ _ 0 hj.le (by linarith)]
    have ea : hc ((j : ℝ) ^ 2 - 0 ^ 2) = (j : ℝ) := by
      rw [hc_of_nonneg (by nlinarith)]; simp [Real.sqrt_sq hj.le]
    have eb : hc (((j : ℝ) + 1) ^ 2 - 0 ^ 2) = (j : ℝ) + 1 := by
      rw [hc_of_nonneg (by nlinarith)]; simp [Real.sqrt_sq (by linarith : (0 : ℝ) ≤ (j : ℝ) + 1)]
    rw [ea, eb]
    have hcongr : ∫ z in (j : ℝ)..((j : ℝ) + 1), 1 / los 0 z = ∫ z in (j : ℝ)..((j : ℝ) + 1), z⁻¹ := by
      apply intervalIntegral.integral_congr
      intro z hz
      rw [uIcc_of_le (by linarith)] at hz
      show 1 / los 0 z = z⁻¹
      rw [los_zero_of_nonneg (le_trans hj.le hz.1), one_div]
    rw [hcongr, integral_inv_of_pos hj (by linarith)]
    unfold tpJ
    simp only [sqrt_real, log_real, pi_real]
    push_cast
    have s1 : Real.sqrt (((j : ℝ) + 1) ^ 2 - 0) = (j : ℝ) + 1 := by simp [Real.sqrt_sq (by linarith : (0 : ℝ) ≤ (j : ℝ) + 1)]
    have s0 : Real.sqrt ((j : ℝ) ^ 2 - 0) = (j : ℝ) := by simp [Real.sqrt_sq hj.le]
    rw [s1, s0]
    have : ((j : ℝ) + 1 + ((j : ℝ) + 1)) / ((j : ℝ) + (j : ℝ)) = ((j : ℝ) + 1) / (j : ℝ) := by field_simp
    rw [this]
    field_simp

/-- derivative of the axis-row interpolant: `2 (P₁ − P₀) ρ` on `[0, 1)`, `P_{j+1} − P_j` on `[j, j+1)` beyond (zero-padded samples) -/
noncomputable def dPaxis (n : ℕ) (P : ℕ → ℝ) (ρ : ℝ) : ℝ :=
  ρ * sumRange n (fun j => (padded n P (j + 1) - padded n P j) * axisWeight j ρ)

/-- **two-point operator, axis row**: `Σ_j D[0, j] P_j` is the inverse Abel integral at `r = 0` of the interpolant that is an even
    parabola on the first interval and piecewise linear beyond -/
theorem twoPoint_axis_eq_invAbel (n : ℕ) (P : ℕ → ℝ) :
    sumRange n (fun j => (twoPointD 0 j : ℝ) * P j) = invAbel (dPaxis n P) 0 := by
  set c : ℕ → ℝ := fun j => padded n P (j + 1) - padded n P j with hc'
  set T : ℕ → ℝ := fun j => if j = 0 then 2 / Real.pi else (tpJ 0 j : ℝ) with hT
  unfold invAbel
  have hex : Abel (fun ρ => dPaxis n P ρ / ρ) 0 = Abel (fun ρ => sumRange n (fun j => c j * axisWeight j ρ)) 0 := by
    apply abel_congr_except 0 0
    intro ρ hρ
    unfold dPaxis
    field_simp
    rfl
  rw [hex, (abel_sumRange n c (fun j => axisWeight j) 0 (fun j _ => losInt_axisWeight j)).1]
  have h1 : sumRange n (fun j => c j * Abel (axisWeight j) 0) = 2 * Real.pi * sumRange n (fun j => c j * T j) := by
    rw [← sumRange_smul]
    apply sumRange_congr
    intro j _
    rw [abel_axisWeight j]
    simp only [hT]; ring
  rw [h1, sum_by_parts n (padded n P) T]
  have hpn : padded n P n = 0 := by unfold padded; rw [if_neg (lt_irrefl n)]
  rw [hpn, zero_mul, zero_sub]
  have hpi : Real.pi ≠ 0 := Real.pi_ne_zero
  have h2 : sumRange n (fun j => padded n P j * (T j - (if j = 0 then 0 else T (j - 1)))) = sumRange n (fun j => (twoPointD 0 j : ℝ) * P j) := by
    apply sumRange_congr
    intro j hj
    unfold padded twoPointD
    rw [if_pos hj]
    simp only [hT, pi_real]
    by_cases h0 : j = 0
    · subst h0; simp; ring
    · by_cases h1 : j = 1
      · subst h1; simp; ring
      · have a1 : ¬ ((0 : ℕ) = 0 ∧ j = 0) := fun h => h0 h.2
        have a2 : ¬ ((0 : ℕ) = 0 ∧ j = 1) := fun h => h1 h.2
        have a3 : ¬ j < 0 := by omega
        have a4 : ¬ (0 : ℕ) = j := by omega
        have a5 : ¬ j - 1 = 0 := by omega
        have a1' : ¬ (True ∧ j = 0) := fun h => h0 h.2
        have a2' : ¬ (True ∧ j = 1) := fun h => h1 h.2
        simp only [if_neg a1', if_neg a2', if_neg a3, if_neg a4, if_neg h0, if_neg a5]; ring
  rw [h2]
  field_simp

/-- non-vacuity: the single sample `P₀ = 1` (`n = 1`): the parabola `1 − x²` on `[0, 1)`, whose inverse Abel integral on the axis is `2/π` -/
example : invAbel (dPaxis 1 (fun _ => 1)) 0 = 2 / Real.pi := by
  rw [← twoPoint_axis_eq_invAbel]
  simp [sumRange, twoPointD]

/-- the line of sight `t ↦ √(r² + t²)` maps `(0, ∞)` onto `(r, ∞)` -/
theorem los_image (r : ℝ) (hr : 0 ≤ r) : (fun t => Real.sqrt (r ^ 2 + t ^ 2)) '' Ioi 0 = Ioi r := by
  ext x
  constructor
  · rintro ⟨t, ht, rfl⟩
    have ht0 : (0 : ℝ) < t := ht
    show r < Real.sqrt (r ^ 2 + t ^ 2)
    rw [Real.lt_sqrt hr]; nlinarith
  · intro hx
    have hx' : r < x := hx
    have hd : 0 < x ^ 2 - r ^ 2 := by nlinarith
    refine ⟨Real.sqrt (x ^ 2 - r ^ 2), Real.sqrt_pos.mpr hd, ?_⟩
    show Real.sqrt (r ^ 2 + Real.sqrt (x ^ 2 - r ^ 2) ^ 2) = x
    rw [Real.sq_sqrt hd.le, show r ^ 2 + (x ^ 2 - r ^ 2) = x ^ 2 by ring, Real.sqrt_sq (by linarith)]

/-- **the line-of-sight form is the textbook inverse Abel integral**: `invAbel P′ r = −(1/π) ∫_r^∞ P′(x) / √(x² − r²) dx`
    (substitution `x = √(r² + t²)`; no regularity of `P′` is needed — both sides are the same Lebesgue integral) -/
theorem invAbel_eq_textbook (dP : ℝ → ℝ) (r : ℝ) (hr : 0 ≤ r) :
    invAbel dP r = -(1 / Real.pi) * ∫ x in Ioi r, dP x / Real.sqrt (x ^ 2 - r ^ 2) := by
  unfold invAbel Abel
  rw [← los_image r hr]
  have hd : ∀ t ∈ Ioi (0 : ℝ), HasDerivWithinAt (fun t => Real.sqrt (r ^ 2 + t ^ 2)) (t / Real.sqrt (r ^ 2 + t ^ 2)) (Ioi 0) t := by
    intro t ht
    have ht0 : (0 : ℝ) < t := ht
    have hp : (0 : ℝ) < r ^ 2 + t ^ 2 := by positivity
    have d2 : HasDerivAt (fun t : ℝ => r ^ 2 + t ^ 2) (2 * t) t := by
      have := ((hasDerivAt_id t).pow 2).const_add (r ^ 2)
      simpa using this
    have d3 := d2.sqrt hp.ne'
    refine (d3.congr_deriv ?_).hasDerivWithinAt
    field_simp
  have hinj : InjOn (fun t => Real.sqrt (r ^ 2 + t ^ 2)) (Ioi 0) := by
    intro t1 h1 t2 h2 he
    have h1' : (0 : ℝ) < t1 := h1
    have h2' : (0 : ℝ) < t2 := h2
    have e := congrArg (fun v => v ^ 2) he
    simp only at e
    rw [Real.sq_sqrt (by positivity), Real.sq_sqrt (by positivity)] at e
    have hf : (t1 - t2) * (t1 + t2) = 0 := by ring_nf; linarith
    rcases mul_eq_zero.mp hf with h | h <;> linarith
  rw [integral_image_eq_integral_abs_deriv_smul measurableSet_Ioi hd hinj]
  have hcongr : ∀ t ∈ Ioi (0 : ℝ), |t / Real.sqrt (r ^ 2 + t ^ 2)| • (dP (Real.sqrt (r ^ 2 + t ^ 2)) / Real.sqrt (Real.sqrt (r ^ 2 + t ^ 2) ^ 2 - r ^ 2))
      = dP (Real.sqrt (r ^ 2 + t ^ 2)) / Real.sqrt (r ^ 2 + t ^ 2) := by
    intro t ht
    have ht0 : (0 : ℝ) < t := ht
    have hp : (0 : ℝ) < r ^ 2 + t ^ 2 := by positivity
    have hs : 0 < Real.sqrt (r ^ 2 + t ^ 2) := Real.sqrt_pos.mpr hp
    rw [abs_of_pos (by positivity), Real.sq_sqrt hp.le, show r ^ 2 + t ^ 2 - r ^ 2 = t ^ 2 by ring, Real.sqrt_sq ht0.le, smul_eq_mul]
    field_simp
  rw [setIntegral_congr_fun measurableSet_Ioi hcongr]
  ring
end PyAbel.C09
