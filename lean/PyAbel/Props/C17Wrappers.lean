/-
C17 (wrappers) — every wrapper-shaped function routes each of its arguments to the parameter of
the wrapped function that has the same meaning.

`PyAbel.Gen.wrappers` is regenerated from /repo on every check by harness/gen_wrappers.py; the
theorem below is re-decided whenever that table changes.
-/
import PyAbel.Gen.Wrappers

namespace PyAbel.C17W
open PyAbel.Gen

/-- the only renamings between a deprecated alias and the function it wraps (documented in the
    deprecation messages): `center` became `method`, `axis` became `axes`. -/
def allowedRenames : List (String × String) := [("center", "method"), ("axis", "axes")]

def sameMeaning (w : Wrapper) (arg : Arg) (calleeParam : String) : Bool :=
  match arg with
  | .const => true                       -- a literal bound to a callee parameter (the wrapper's purpose)
  | .expr => false                       -- a computed argument is not a plain forwarding
  | .name a =>
    a == calleeParam ||
    allowedRenames.contains (a, calleeParam) ||
    w.renames.contains (a, calleeParam)  -- `if old is not _deprecated: new = old` inside the wrapper

/-- callee parameters bound by the positional arguments -/
def posTargets (w : Wrapper) : List (Option String) :=
  (List.range w.pos.length).map fun k => w.calleeParams[k]?

/-- positional argument `k` lands in callee parameter `k`; keyword `p=a` lands in `p`;
    both must be parameters of the callee and carry the same meaning; nothing is bound twice. -/
def wellRouted (w : Wrapper) : Bool :=
  ((w.pos.zip (posTargets w)).all fun (ap : Arg × Option String) =>
      match ap.2 with
      | some p => sameMeaning w ap.1 p
      | none => false) &&
  (w.kws.all fun (pa : String × Arg) => w.calleeParams.contains pa.1 && sameMeaning w pa.2 pa.1) &&
  ((posTargets w).map (·.getD "") ++ w.kws.map (·.1)).Nodup

theorem all_wrappers_well_routed : wrappers.all wellRouted = true := by decide +kernel

/-- the table is not empty (non-vacuity) and contains the Dasch wrappers -/
theorem table_nonempty : 10 ≤ wrappers.length ∧
    (wrappers.any fun w => w.name == "abel.dasch.two_point_transform") = true := by decide +kernel

end PyAbel.C17W
