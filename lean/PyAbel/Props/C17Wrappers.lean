/-
C17 (wrappers) — every wrapper-shaped function routes each of its arguments to the parameter of
the wrapped function that has the same meaning.

`PyAbel.Gen.wrappers` is regenerated from /repo on every check by harness/gen_wrappers.py; the
theorem below is re-decided whenever that table changes.
-/
import PyAbel.Gen.Wrappers

namespace PyAbel.C17W
open PyAbel.Gen

/-- the only renamings between a deprecated alias and the function it wraps (documented in the
    deprecation messages): `center` became `method`, `axis` became `axes`. -/
def allowedRenames : List (String × String) := [("center", "method"), ("axis", "axes")]

def sameMeaning (w : Wrapper) (arg : Arg) (calleeParam : String) : Bool :=
  match arg with
  | .const => true                       -- a literal bound to a callee parameter (the wrapper's purpose)
  | .expr => false                       -- a computed argument is not a plain forwarding
  | .name a =>
    a == calleeParam ||
    allowedRenames.contains (a, calleeParam) ||
    w.renames.contains (a, calleeParam)  -- `if old is not _deprecated: new = old` inside the wrapper

/-- callee parameters bound by the positional arguments -/
def posTargets (w : Wrapper) : List (Option String) :=
  (List.range w.pos.length).map fun k => w.calleeParams[k]?

/-- positional argument `k` lands in callee parameter `k`; keyword `p=a` lands in `p`;
    both must be parameters of the callee and carry the same meaning; nothing is bound twice. -/
def wellRouted (w : Wrapper) : Bool :=
  ((w.pos.zip (posTargets w)).all fun (ap : Arg × Option String) =>
      match ap.2 with
      | some p => sameMeaning w ap.1 p
      | none => false) &&
  (w.kws.all fun (pa : String × Arg) => w.calleeParams.contains pa.1 && sameMeaning w pa.2 pa.1) &&
  ((posTargets w).map (·.getD "") ++ w.kws.map (·.1)).Nodup

theorem all_wrappers_well_routed : wrappers.all wellRouted = true := by decide +kernel

/-- the table is not empty (non-vacuity) and contains the Dasch wrappers -/
theorem table_nonempty : 10 ≤ wrappers.length ∧
    (wrappers.any fun w => w.name == "abel.dasch.two_point_transform") = true := by decide +kernel

/-! ### what the decided table means -/

/-- what `sameMeaning` accepts for a forwarded name -/
theorem sameMeaning_name (w : Wrapper) (a p : String) (h : sameMeaning w (.name a) p = true) :
    a = p ∨ (a, p) ∈ allowedRenames ∨ (a, p) ∈ w.renames := by
  simp only [sameMeaning, Bool.or_eq_true, beq_iff_eq, List.contains_iff_mem] at h
  rcases h with (h | h) | h
  · exact Or.inl h
  · exact Or.inr (Or.inl h)
  · exact Or.inr (Or.inr h)

/-- **meaning of the decided table, keyword arguments**: in a well-routed wrapper every keyword `p = a` names a parameter the wrapped
    function really has, and the forwarded variable is the wrapper's parameter of the same name (or a documented renaming) — a keyword
    is never bound to a differently named variable, to a computed expression, or to a parameter that does not exist -/
theorem wellRouted_kw (w : Wrapper) (h : wellRouted w = true) (p : String) (a : Arg) (hm : (p, a) ∈ w.kws) :
    p ∈ w.calleeParams ∧
      (match a with
       | .name v => v = p ∨ (v, p) ∈ allowedRenames ∨ (v, p) ∈ w.renames
       | .const => True
       | .expr => False) := by
  simp only [wellRouted, Bool.and_eq_true, List.all_eq_true] at h
  have hk := h.1.2 (p, a) hm
  simp only [List.contains_iff_mem] at hk
  refine ⟨hk.1, ?_⟩
  cases a with
  | name v => exact sameMeaning_name w v p hk.2
  | const => trivial
  | expr => simp [sameMeaning] at hk

/-- no parameter of the wrapped function is bound twice (by position and by keyword, or by two keywords) -/
theorem wellRouted_no_double_binding (w : Wrapper) (h : wellRouted w = true) :
    ((posTargets w).map (·.getD "") ++ w.kws.map (·.1)).Nodup := by
  simp only [wellRouted, Bool.and_eq_true, List.all_eq_true, decide_eq_true_eq] at h
  exact h.2

/-- … and both hold for **every wrapper in the current source** -/
theorem every_wrapper_kw (w : Wrapper) (hw : w ∈ wrappers) (p : String) (a : Arg) (hm : (p, a) ∈ w.kws) :
    p ∈ w.calleeParams ∧
      (match a with
       | .name v => v = p ∨ (v, p) ∈ allowedRenames ∨ (v, p) ∈ w.renames
       | .const => True
       | .expr => False) :=
  wellRouted_kw w (List.all_eq_true.mp all_wrappers_well_routed w hw) p a hm

end PyAbel.C17W
