/-
C02 — rBasex forward transform is exact on its own function space: for every angular order `n`, the radial matrix applied to
coefficients `c_R` gives exactly the line-of-sight projection of the distribution  Σ_R c_R b_R(ρ) cosⁿθ  (piecewise linear in the
radius), at every integer distance `r ≥ 1` and every `Rmax`.  With C09Rbasex (each matrix entry is its defining integral) this is
linearity of the Abel integral.
-/
import PyAbel.Props.C03Bases

open MeasureTheory Set

namespace PyAbel.C02
open PyAbel PyAbel.C09 PyAbel.C03

/-- integrability along the line of sight of (continuous, compactly supported) × (x/ρ)ⁿ -/
theorem losInt_cont_frac {x : ℝ} (hx : 0 < x) {φ : ℝ → ℝ} (hφ : Continuous φ) (B : ℝ) (hsupp : ∀ ρ, B ≤ ρ → φ ρ = 0) (n : ℕ) :
    LosInt (fun ρ => φ ρ * (x / ρ) ^ n) x := by
  unfold LosInt
  have hcont : Continuous fun z : ℝ => φ (Real.sqrt (x ^ 2 + z ^ 2)) * (x / Real.sqrt (x ^ 2 + z ^ 2)) ^ n := by
    have h1 : Continuous fun z : ℝ => Real.sqrt (x ^ 2 + z ^ 2) := los_continuous x
    have h2 : Continuous fun z : ℝ => x / Real.sqrt (x ^ 2 + z ^ 2) := fr_continuous hx
    exact (hφ.comp h1).mul (h2.pow n)
  have h1 : IntegrableOn (fun z : ℝ => φ (Real.sqrt (x ^ 2 + z ^ 2)) * (x / Real.sqrt (x ^ 2 + z ^ 2)) ^ n) (Icc 0 (max B 0)) :=
    hcont.integrableOn_Icc
  refine h1.of_forall_sdiff_eq_zero measurableSet_Ioi ?_
  intro z hz
  simp only [mem_sdiff, mem_Ioi, mem_Icc, not_and, not_le] at hz
  obtain ⟨hz0, hzB⟩ := hz
  have hzB' : max B 0 < z := hzB hz0.le
  have : φ (Real.sqrt (x ^ 2 + z ^ 2)) = 0 := by
    apply hsupp
    calc B ≤ max B 0 := le_max_left _ _
      _ ≤ z := hzB'.le
      _ = Real.sqrt (z ^ 2) := (Real.sqrt_sq hz0.le).symm
      _ ≤ Real.sqrt (x ^ 2 + z ^ 2) := Real.sqrt_le_sqrt (by nlinarith [sq_nonneg x])
  rw [this, zero_mul]

theorem sumRange_mul_right (N : ℕ) (f : ℕ → ℝ) (a : ℝ) : sumRange N f * a = sumRange N (fun k => f k * a) := by
  induction N with
  | zero => simp [sumRange]
  | succ N ih => simp only [sumRange]; rw [add_mul, ih]

/-- **rBasex forward projection is exact for radially piecewise-linear distributions**, every angular order -/
theorem rbasex_forward_exact (n N : ℕ) (c : ℕ → ℝ) (r : ℕ) (hr : 1 ≤ r) :
    sumRange N (fun R => c R * (RbxBasis.P n R r : ℝ))
      = Abel (fun ρ => (sumRange N fun R => c R * hat R ρ) * ((r : ℝ) / ρ) ^ n) r := by
  have hx : (0 : ℝ) < r := by exact_mod_cast hr
  have e : (fun ρ : ℝ => (sumRange N fun R => c R * hat R ρ) * ((r : ℝ) / ρ) ^ n)
      = fun ρ => sumRange N fun R => c R * (hat R ρ * ((r : ℝ) / ρ) ^ n) := by
    funext ρ
    rw [sumRange_mul_right]
    apply sumRange_congr; intro k _; ring
  have hL : ∀ R, R < N → LosInt (fun ρ : ℝ => hat R ρ * ((r : ℝ) / ρ) ^ n) r :=
    fun R _ => losInt_cont_frac hx (hat_continuous R) ((R : ℝ) + 1) (fun ρ hρ => hat_zero_of_ge R ρ hρ) n
  rw [e, (abel_sumRange N c (fun R ρ => hat R ρ * ((r : ℝ) / ρ) ^ n) r hL).1]
  apply sumRange_congr
  intro R _
  congr 1
  rcases lt_or_ge R r with hlt | hge
  · rw [rbasexP_lower_triangular n R r hlt]
    symm
    apply abel_zero_of_support hx.le (R := (R : ℝ) + 1)
    · have : R + 1 ≤ r := hlt
      exact_mod_cast this
    · intro ρ hρ; rw [hat_zero_of_ge R ρ hρ, zero_mul]
  · have hne : r ≠ 0 := by omega
    have : (RbxBasis.P n R r : ℝ) = RbxBasis.p n R r := by simp [RbxBasis.P, hne, not_lt.mpr hge]
    rw [this, rbasex_p_eq_abel n R r hr hge]

end PyAbel.C02
