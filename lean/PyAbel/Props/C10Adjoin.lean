/-
C10 — piecewise classes: the domains of the pieces are half-open, `r_min ≤ r < r_max`, so adjoining pieces tile — a sample on the
common limit belongs to the outer piece only — and the Abel transform of the whole is the sum of the transforms of the pieces
(`PiecewisePolynomial` / `PiecewiseSPolynomial` add up `func` and `abel` of their pieces; with `polynomial_abel` /
`spolynomial_term_abel` for each piece this is the transform of the piecewise function).
-/
import PyAbel.Props.C09TwoPoint
open PyAbel Set MeasureTheory
namespace PyAbel.C10Adjoin

/-- the half-open domains of adjoining pieces tile: `[a, b)` and `[b, c)` are `[a, c)`, no sample is counted twice or dropped -/
theorem pieces_adjoin (g : ℝ → ℝ) (a b c : ℝ) (hab : a ≤ b) (hbc : b ≤ c) (r : ℝ) :
    indicator (Ico a b) g r + indicator (Ico b c) g r = indicator (Ico a c) g r := by
  by_cases h1 : r ∈ Ico a b
  · have h2 : r ∉ Ico b c := fun h => absurd h.1 (not_le.mpr h1.2)
    have h3 : r ∈ Ico a c := ⟨h1.1, lt_of_lt_of_le h1.2 hbc⟩
    simp [indicator_of_mem h1, indicator_of_notMem h2, indicator_of_mem h3]
  · by_cases h2 : r ∈ Ico b c
    · have h3 : r ∈ Ico a c := ⟨le_trans hab h2.1, h2.2⟩
      simp [indicator_of_notMem h1, indicator_of_mem h2, indicator_of_mem h3]
    · have h3 : r ∉ Ico a c := by
        intro h
        by_cases hb : r < b
        · exact h1 ⟨h.1, hb⟩
        · exact h2 ⟨not_lt.mp hb, h.2⟩
      simp [indicator_of_notMem h1, indicator_of_notMem h2, indicator_of_notMem h3]

/-- … and so do their Abel transforms: the transform of the piece over `[a, c)` is the sum of those over `[a, b)` and `[b, c)` -/
theorem abel_pieces_adjoin (g : ℝ → ℝ) (a b c x : ℝ) (ha : 0 ≤ a) (hab : a ≤ b) (hbc : b ≤ c)
    (hg : Continuous fun z => g (los x z)) :
    Abel (indicator (Ico a c) g) x = Abel (indicator (Ico a b) g) x + Abel (indicator (Ico b c) g) x := by
  rw [← abel_add (C09.losInt_shellFun g a b x ha hab hg) (C09.losInt_shellFun g b c x (le_trans ha hab) hbc hg)]
  congr 1; funext r; exact (pieces_adjoin g a b c hab hbc r).symm

end PyAbel.C10Adjoin
