/-
C12 — `center_image` with an explicit whole-pixel origin (model: `centerImageExplicit`, the code after the repairs F36 / F38 / F58):
whenever the request is not refused, the requested pixel of the *input* image — counted from the start or from the end — is the
centre pixel `(rows // 2, cols // 2)` of the output, for every crop option and every combination of `odd_size` and `square`
(including the second squaring after the shape-changing crops); and it is refused exactly when the pixel lies in the rows or
columns that the trimming removes.
-/
import PyAbel.Props.C12

namespace PyAbel.C12
open PyAbel

theorem centerAxis_size_pos (crop : Crop) (n : Nat) (o : Int) (h0 : 0 ≤ o) (h1 : o < n) : 1 ≤ (centerAxis crop n o).size := by
  cases crop <;> simp only [centerAxis] <;> omega

theorem explicitOrigin_some {n trimmed size' : Nat} {o a : Int} (h : explicitOrigin n trimmed size' o = some a) :
    0 ≤ a ∧ a < size' ∧ a = wrapOrigin n o - trimmed := by
  unfold explicitOrigin at h
  simp only at h
  split_ifs at h with hc
  injection h with h
  omega

/-- refused exactly when the requested (wrapped) index is outside the kept block `[trimmed, trimmed + size')` -/
theorem explicitOrigin_none_iff (n trimmed size' : Nat) (o : Int) :
    explicitOrigin n trimmed size' o = none ↔ (wrapOrigin n o < trimmed ∨ (trimmed : Int) + size' ≤ wrapOrigin n o) := by
  unfold explicitOrigin
  simp only
  split_ifs with hc
  · simp; omega
  · simp; omega

/-- the centre of a central slice is the centre of the whole -/
theorem slice_centre (m : AxisMap) (len : Nat) (h1 : 1 ≤ len) (h2 : len ≤ m.size) :
    (m.slice (m.size / 2 - len / 2) len).src ((m.slice (m.size / 2 - len / 2) len).size / 2) = m.src (m.size / 2) := by
  simp only [AxisMap.slice]
  have : len / 2 < len := by omega
  rw [if_pos this]
  congr 1
  omega

theorem one_axis (crop : Crop) (n trimmed size' : Nat) (o a : Int) (h : explicitOrigin n trimmed size' o = some a) :
    ((centerAxis crop size' a).shiftSrc trimmed).src (((centerAxis crop size' a).shiftSrc trimmed).size / 2) = some (wrapOrigin n o).toNat := by
  obtain ⟨h0, h1, h2⟩ := explicitOrigin_some h
  have := origin_lands_at_centre crop size' a h0 h1
  simp only at this
  simp only [AxisMap.shiftSrc, this, Option.map_some]
  congr 1
  omega

theorem one_axis_sliced (crop : Crop) (n trimmed size' : Nat) (o a : Int) (len : Nat) (hl1 : 1 ≤ len) (hl2 : len ≤ (centerAxis crop size' a).size)
    (h : explicitOrigin n trimmed size' o = some a) :
    let m := ((centerAxis crop size' a).slice ((centerAxis crop size' a).size / 2 - len / 2) len).shiftSrc trimmed
    m.src (m.size / 2) = some (wrapOrigin n o).toNat := by
  obtain ⟨h0, h1, h2⟩ := explicitOrigin_some h
  have hc := origin_lands_at_centre crop size' a h0 h1
  simp only at hc
  have hs := slice_centre (centerAxis crop size' a) len hl1 hl2
  simp only [AxisMap.shiftSrc] at hs ⊢
  show Option.map (· + trimmed) (((centerAxis crop size' a).slice _ len).src (((centerAxis crop size' a).slice _ len).size / 2)) = _
  rw [hs, hc, Option.map_some]
  congr 1
  omega

/-- **the requested pixel of the input image lands at the centre of the output** -/
theorem explicit_origin_lands_at_centre (crop : Crop) (rows cols : Nat) (oddSize square : Bool) (o0 o1 : Int) (rm cm : AxisMap)
    (h : centerImageExplicit crop rows cols oddSize square o0 o1 = some (rm, cm)) :
    rm.src (rm.size / 2) = some (wrapOrigin rows o0).toNat ∧ cm.src (cm.size / 2) = some (wrapOrigin cols o1).toNat := by
  unfold centerImageExplicit at h
  simp only at h
  set t := centerImageTrim rows cols oddSize square with ht
  cases ha : explicitOrigin rows t.1 t.2.1 o0 with
  | none => rw [ha] at h; simp at h
  | some a =>
    cases hb : explicitOrigin cols t.2.2.1 t.2.2.2 o1 with
    | none => rw [ha, hb] at h; simp at h
    | some b =>
      rw [ha, hb] at h
      simp only at h
      obtain ⟨a0, a1, _⟩ := explicitOrigin_some ha
      obtain ⟨b0, b1, _⟩ := explicitOrigin_some hb
      have pr := centerAxis_size_pos crop t.2.1 a a0 a1
      have pc := centerAxis_size_pos crop t.2.2.2 b b0 b1
      set R := (centerAxis crop t.2.1 a).size with hR
      set C := (centerAxis crop t.2.2.2 b).size with hC
      by_cases hsq : (square && R != C) = true
      · rw [if_pos hsq] at h
        by_cases hodd : (oddSize && min R C % 2 == 0) = true
        · rw [if_pos hodd] at h
          injection h with h
          injection h with hrm hcm
          subst hrm; subst hcm
          simp only [Bool.and_eq_true, beq_iff_eq] at hodd
          exact ⟨one_axis_sliced crop rows t.1 t.2.1 o0 a _ (by omega) (by omega) ha,
                 one_axis_sliced crop cols t.2.2.1 t.2.2.2 o1 b _ (by omega) (by omega) hb⟩
        · rw [if_neg hodd] at h
          injection h with h
          injection h with hrm hcm
          subst hrm; subst hcm
          exact ⟨one_axis_sliced crop rows t.1 t.2.1 o0 a _ (by omega) (by omega) ha,
                 one_axis_sliced crop cols t.2.2.1 t.2.2.2 o1 b _ (by omega) (by omega) hb⟩
      · rw [if_neg hsq] at h
        injection h with h
        injection h with hrm hcm
        subst hrm; subst hcm
        exact ⟨one_axis crop rows t.1 t.2.1 o0 a ha, one_axis crop cols t.2.2.1 t.2.2.2 o1 b hb⟩

/-- … and with `square` the output is square, with `odd_size` (and `square`) of odd size, after the second squaring too -/
theorem explicit_square (crop : Crop) (rows cols : Nat) (oddSize : Bool) (o0 o1 : Int) (rm cm : AxisMap)
    (h : centerImageExplicit crop rows cols oddSize true o0 o1 = some (rm, cm)) : rm.size = cm.size := by
  unfold centerImageExplicit at h
  simp only at h
  cases ha : explicitOrigin rows (centerImageTrim rows cols oddSize true).1 (centerImageTrim rows cols oddSize true).2.1 o0 with
  | none => rw [ha] at h; simp at h
  | some a =>
    cases hb : explicitOrigin cols (centerImageTrim rows cols oddSize true).2.2.1 (centerImageTrim rows cols oddSize true).2.2.2 o1 with
    | none => rw [ha, hb] at h; simp at h
    | some b =>
      rw [ha, hb] at h
      simp only [Bool.true_and] at h
      by_cases hsq : ((centerAxis crop (centerImageTrim rows cols oddSize true).2.1 a).size
          != (centerAxis crop (centerImageTrim rows cols oddSize true).2.2.2 b).size) = true
      · rw [if_pos hsq] at h
        injection h with h; injection h with hrm hcm; subst hrm; subst hcm; rfl
      · rw [if_neg hsq] at h
        injection h with h; injection h with hrm hcm; subst hrm; subst hcm
        simp only [AxisMap.shiftSrc]
        simpa using hsq

/-- non-vacuity: a 9x5 image, the pixel (6, 2), `square=True`: the kept block is rows 2..6, the pixel lands at the centre (2, 2);
    the pixel (1, 2) is removed by the trimming and the request is refused -/
example : (centerImageExplicit .maintainSize 9 5 true true 6 2).map (fun p => (p.1.size, p.2.size, p.1.src 2, p.2.src 2)) = some (5, 5, some 6, some 2) ∧
    (centerImageExplicit .maintainSize 9 5 true true 1 2).isNone = true ∧
    (centerImageExplicit .validRegion 9 5 true true (-3) (-3)).map (fun p => (p.1.size, p.2.size, p.1.src (p.1.size / 2), p.2.src (p.2.size / 2))) = some (1, 1, some 6, some 2) := by
  decide

end PyAbel.C12
