/-
C03 — forward and inverse transforms of one method undo each other (exact class).

daun (degrees 0–2): forward is `x ↦ x · A` with `A` lower-triangular (row j = projection of basis
function j), inverse is `solve_triangular(Aᵀ, ·)`.  basex (σ = 1, no correction, reg = 0, full
basis) and rbasex (per angular order): forward and inverse are a matrix and its inverse.
The theorems are over any field; the diagonal facts that make them apply are proved for the
degree-0 basis and assumed (and exhibited) otherwise.
-/
import PyAbel.Lemmas.Linalg
import PyAbel.Lemmas.RealInst
import Mathlib.Analysis.SpecialFunctions.Sqrt
import Mathlib.Tactic.IntervalCases

namespace PyAbel.C03
open PyAbel

variable {K : Type} [Field K]

/-- `daun_transform(direction='forward')` for one row: `data.dot(M)` -/
def daunFwd (n : ℕ) (A : ℕ → ℕ → K) (x : ℕ → K) : ℕ → K := vecMat n x A
/-- `daun_transform(direction='inverse')` for one row: `solve_triangular(M.T, data.T).T` -/
def daunInv (n : ℕ) (A : ℕ → ℕ → K) (d : ℕ → K) : ℕ → K :=
  fun i => (backSubst (fun i j => A j i) d n).getD i 0

theorem daunFwd_eq_matVec (n : ℕ) (A : ℕ → ℕ → K) (x : ℕ → K) :
    daunFwd n A x = matVec n (fun i j => A j i) x := by
  funext i; simp only [daunFwd, vecMat, matVec]
  apply sumRange_congr; intro k _; ring

/-- inverse ∘ forward = id, for every lower-triangular basis matrix with non-zero diagonal,
    every size and every (not necessarily smooth) row -/
theorem daun_inverse_forward (n : ℕ) (A : ℕ → ℕ → K) (hd : ∀ i, i < n → A i i ≠ 0)
    (htri : ∀ j i, j < i → A j i = 0) (x : ℕ → K) (i : ℕ) (hi : i < n) :
    daunInv n A (daunFwd n A x) i = x i := by
  rw [daunFwd_eq_matVec]
  exact backSubst_matVec (fun i j => A j i) x n hd (fun i j h => htri j i h) i hi

/-- forward ∘ inverse = id -/
theorem daun_forward_inverse (n : ℕ) (A : ℕ → ℕ → K) (hd : ∀ i, i < n → A i i ≠ 0)
    (htri : ∀ j i, j < i → A j i = 0) (d : ℕ → K) (i : ℕ) (hi : i < n) :
    daunFwd n A (daunInv n A d) i = d i := by
  rw [daunFwd_eq_matVec]
  exact backSubst_correct (fun i j => A j i) d n hd (fun i j h => htri j i h) i hi

/-! the hypotheses hold for the degree-0 basis at every size -/

theorem daun0_lower_triangular (j i : ℕ) (h : j < i) : (daun0 j i : ℝ) = 0 := by
  simp [daun0, h]

theorem daun0_diag_pos (j : ℕ) : (0 : ℝ) < daun0 j j := by
  simp only [daun0, lt_irrefl, if_false, if_true, sqrt_real]
  push_cast
  have : (0 : ℝ) < (2 * (j : ℝ) + 1) / 2 * ((2 * (j : ℝ) + 1) / 2) - (j : ℝ) ^ 2 := by
    have hj : (0 : ℝ) ≤ j := Nat.cast_nonneg j
    nlinarith
  have := Real.sqrt_pos.mpr this
  linarith

theorem daun0_roundtrip (n : ℕ) (x : ℕ → ℝ) (i : ℕ) (hi : i < n) :
    daunInv n (fun j i => (daun0 j i : ℝ)) (daunFwd n (fun j i => daun0 j i) x) i = x i ∧
    daunFwd n (fun j i => (daun0 j i : ℝ)) (daunInv n (fun j i => daun0 j i) x) i = x i :=
  ⟨daun_inverse_forward n _ (fun i _ => (daun0_diag_pos i).ne') (fun j i h => daun0_lower_triangular j i h) x i hi,
   daun_forward_inverse n _ (fun i _ => (daun0_diag_pos i).ne') (fun j i h => daun0_lower_triangular j i h) x i hi⟩

/-! basex / rbasex / daun degree 3: forward and inverse operators are a matrix pair `F`, `G`
with `G F = 1` and `F G = 1` (how the code builds them is C09/C17); then both compositions are
the identity on every row. -/

theorem matrix_pair_roundtrip (n : ℕ) (F G : ℕ → ℕ → K)
    (hGF : ∀ i j, i < n → j < n → sumRange n (fun k => G i k * F k j) = if i = j then 1 else 0)
    (x : ℕ → K) (i : ℕ) (hi : i < n) :
    matVec n G (matVec n F x) i = x i := by
  rw [matVec_matVec]
  rw [← sumRange_delta n i hi x]
  apply sumRange_congr; intro j hj
  rw [hGF i j hi hj]

/-! non-vacuity: a 2×2 lower-triangular instance -/
example : ∀ i, i < 2 → (fun (a b : ℕ) => if b ≤ a then ((a + b + 1 : ℕ) : ℚ) else 0) i i ≠ 0 := by
  intro i hi; interval_cases i <;> norm_num

end PyAbel.C03
