/-
C16 — rBasex image, distributions and output shapes describe one transform.

Model: PyAbel/Model/RbasexImage.lean.  Every `out` image is the window `frame out` on the one synthesis function
`F(y, x)`; the theorems are (i) what the synthesis does along the radius (interpolation nodes, the linear
fall to zero between rmax and rmax + 1, zero beyond), over any commutative ring, and (ii) the index relations
between the five output frames.
-/
import PyAbel.Model.RbasexImage
import PyAbel.Props.C14
import Mathlib.Tactic.Ring
import Mathlib.Tactic.Linarith

namespace PyAbel.C16
open PyAbel.Rbasex PyAbel.Distr

variable {K : Type} [Field K]

theorem synth_eq_sum (rmax N : ℕ) (c : ℕ → ℕ → K) (bin : ℕ) (wu t : K) :
    synth rmax N c bin wu t
      = ((List.range N).map fun n => ((1 - wu) * cz rmax c n bin + wu * cz rmax c n (bin + 1)) * t ^ n).sum := by
  simp only [synth, C14.lsum_eq_sum, C14.pow_eq]

/-- at an integer radius `k ≤ rmax` the image is exactly Σ_n c_n(k) cosⁿθ -/
theorem synth_at_node (rmax N : ℕ) (c : ℕ → ℕ → K) (k : ℕ) (hk : k ≤ rmax) (t : K) :
    synth rmax N c k 0 t = ((List.range N).map fun n => c n k * t ^ n).sum := by
  rw [synth_eq_sum]
  congr 1
  apply List.map_congr_left
  intro n _
  simp [cz, hk]

/-- between integer radii: linear interpolation of every distribution -/
theorem synth_between (rmax N : ℕ) (c : ℕ → ℕ → K) (k : ℕ) (hk : k + 1 ≤ rmax) (wu t : K) :
    synth rmax N c k wu t = ((List.range N).map fun n => ((1 - wu) * c n k + wu * c n (k + 1)) * t ^ n).sum := by
  rw [synth_eq_sum]
  congr 1
  apply List.map_congr_left
  intro n _
  have : k ≤ rmax := by omega
  simp [cz, hk, this]

/-- from rmax to rmax + 1 the image falls linearly to zero … -/
theorem synth_falloff (rmax N : ℕ) (c : ℕ → ℕ → K) (wu t : K) :
    synth rmax N c rmax wu t = (1 - wu) * ((List.range N).map fun n => c n rmax * t ^ n).sum := by
  rw [synth_eq_sum, ← List.sum_map_mul_left]
  congr 1
  apply List.map_congr_left
  intro n _
  simp [cz]; ring

/-- … and is zero everywhere beyond (one pixel beyond rmax and further) -/
theorem synth_beyond (rmax N : ℕ) (c : ℕ → ℕ → K) (bin : ℕ) (h : rmax < bin) (wu t : K) :
    synth rmax N c bin wu t = 0 := by
  rw [synth_eq_sum]
  have h1 : ¬ bin ≤ rmax := by omega
  have h2 : ¬ bin + 1 ≤ rmax := by omega
  simp [cz, h1, h2]


/-- **the image is continuous across every bin boundary**: the upper end of bin `k` (`wu = 1`) is the lower end of bin `k + 1`
    (`wu = 0`) — at all radii, including the two boundaries of the fall-off zone -/
theorem synth_continuous (rmax N : ℕ) (c : ℕ → ℕ → K) (k : ℕ) (t : K) :
    synth rmax N c k 1 t = synth rmax N c (k + 1) 0 t := by
  rw [synth_eq_sum, synth_eq_sum]
  congr 1
  apply List.map_congr_left
  intro n _
  ring

/-- **the image is determined by the distributions it is said to describe**: only the values `c n k` with `n < N` and `k ≤ rmax`
    enter — anything stored beyond (`rmax + 1 …`, higher orders) is never read -/
theorem synth_congr (rmax N : ℕ) (c d : ℕ → ℕ → K) (h : ∀ n k, n < N → k ≤ rmax → c n k = d n k) (bin : ℕ) (wu t : K) :
    synth rmax N c bin wu t = synth rmax N d bin wu t := by
  rw [synth_eq_sum, synth_eq_sum]
  congr 1
  apply List.map_congr_left
  intro n hn
  have hn' : n < N := List.mem_range.mp hn
  have e : ∀ k, cz rmax c n k = cz rmax d n k := by
    intro k; unfold cz; split
    · exact h n k hn' ‹_›
    · rfl
  rw [e, e]

/-- zero distributions give the zero image -/
theorem synth_zero (rmax N : ℕ) (bin : ℕ) (wu t : K) : synth rmax N (fun _ _ => (0 : K)) bin wu t = 0 := by
  rw [synth_eq_sum]
  simp [cz]

/-- the image is linear in the distributions -/
theorem synth_linear (rmax N : ℕ) (c d : ℕ → ℕ → K) (a b : K) (bin : ℕ) (wu t : K) :
    synth rmax N (fun n k => a * c n k + b * d n k) bin wu t
      = a * synth rmax N c bin wu t + b * synth rmax N d bin wu t := by
  simp only [synth_eq_sum]
  rw [← List.sum_map_mul_left, ← List.sum_map_mul_left, ← List.sum_map_add]
  congr 1
  apply List.map_congr_left
  intro n _
  simp only [cz]; split_ifs <;> ring

/-! ### output frames -/

/-- `out='same'` has the input's shape and origin -/
theorem same_shape_origin (height width : ℕ) (g : Geometry) :
    (frame .same height width g).rows = height ∧ (frame .same height width g).cols = width ∧
    (frame .same height width g).oy = g.row ∧ (frame .same height width g).ox = g.col := by
  simp [frame]

/-- `out='full'` is the centred (2·rmax + 1)-square -/
theorem full_is_centred_square (height width : ℕ) (g : Geometry) :
    let f := frame .full height width g
    f.rows = 2 * g.rmax + 1 ∧ f.cols = 2 * g.rmax + 1 ∧ f.oy = g.rmax ∧ f.ox = g.rmax := by
  simp [frame]

/-- `'full-unique'` is the unique part of `'full'`: the right half (odd) or the upper-right quadrant (even only),
    i.e. pixel (i, j) of it is pixel (i, rmax + j) of `'full'` -/
theorem full_unique_is_part_of_full (height width : ℕ) (g : Geometry) (N : ℕ) (c : ℕ → ℕ → Float) (i j : ℕ) :
    outPx g.rmax N g.odd c (frame .fullUnique height width g) i j
      = outPx g.rmax N g.odd c (frame .full height width g) i (g.rmax + j) := by
  simp only [outPx, frame]
  cases g.odd <;> simp <;> congr 1 <;> omega

/-- `'fold'` is the unique part of `'unfold'` -/
theorem fold_is_part_of_unfold (height width : ℕ) (g : Geometry) (N : ℕ) (c : ℕ → ℕ → Float) (i j : ℕ)
    (hq : 1 ≤ g.qwidth) :
    outPx g.rmax N g.odd c (frame .fold height width g) i j
      = outPx g.rmax N g.odd c (frame .unfold height width g) i (g.qwidth - 1 + j) := by
  simp only [outPx, frame]
  cases g.odd <;> simp <;> congr 1 <;> omega

/-- the frames of `'unfold'` are the mirror-unfolding of `'fold'`: twice the size minus the shared axis -/
theorem unfold_frame (height width : ℕ) (g : Geometry) :
    let f := frame .fold height width g
    let u := frame .unfold height width g
    u.cols = 2 * f.cols - 1 ∧ (u.rows = if g.odd then f.rows else 2 * f.rows - 1) := by
  simp only [frame]
  cases g.odd <;> simp

end PyAbel.C16
