/-
C02 / C04 — the uniformity test of explicit radial grids (`abel.direct.is_uniform_sampling`, Model/Grid.lean) does not depend on the
unit of length: the grid `u · r` (u > 0: pixels, micrometres, metres) is judged exactly as `r` is.  (Before repair F71 the second
differences were compared with an absolute 1e-13, and a non-uniform grid given in a small enough unit was integrated as a uniform one.)
Also: an exactly uniform grid passes for every tolerance ≥ 0, and a grid with one second difference above the allowance fails.
-/
import PyAbel.Model.Grid
import Mathlib.Algebra.Order.Field.Basic
import Mathlib.Algebra.Order.AbsoluteValue.Basic
import Mathlib.Algebra.Order.Ring.Abs
import Mathlib.Algebra.Order.Field.Rat
import Mathlib.Tactic.Ring
import Mathlib.Tactic.Linarith
import Mathlib.Tactic.NormNum

set_option linter.unusedSectionVars false

namespace PyAbel.C02Grid
open PyAbel PyAbel.Grid

variable {K : Type} [Field K] [LinearOrder K] [IsStrictOrderedRing K]

instance : HasAbs K := ⟨fun x => |x|⟩

theorem maxAbs_nonneg (r : ℕ → K) (n : ℕ) : 0 ≤ maxAbs r n := by
  induction n with
  | zero => simp [maxAbs]
  | succ k ih => simp only [maxAbs]; exact le_max_of_le_left ih

theorem maxAbs_smul (u : K) (hu : 0 ≤ u) (r : ℕ → K) (n : ℕ) :
    maxAbs (fun i => u * r i) n = u * maxAbs r n := by
  induction n with
  | zero => simp [maxAbs]
  | succ k ih =>
    simp only [maxAbs, ih]
    show max (u * maxAbs r k) |u * r k| = u * max (maxAbs r k) |r k|
    rw [abs_mul, abs_of_nonneg hu, mul_max_of_nonneg _ _ hu]

theorem ddr_smul (u : K) (r : ℕ → K) (i : ℕ) : ddr (fun j => u * r j) i = u * ddr r i := by
  simp only [ddr]; ring

theorem allSmall_smul (tol M u : K) (hu : 0 < u) (r : ℕ → K) (m : ℕ) :
    allSmall tol (u * M) (fun i => u * r i) m = allSmall tol M r m := by
  induction m with
  | zero => simp [allSmall]
  | succ k ih =>
    simp only [allSmall, ih]
    congr 1
    have : (HasAbs.abs (ddr (fun i => u * r i) k) ≤ tol * (u * M)) ↔ (HasAbs.abs (ddr r k) ≤ tol * M) := by
      show |ddr (fun i => u * r i) k| ≤ tol * (u * M) ↔ |ddr r k| ≤ tol * M
      rw [ddr_smul, abs_mul, abs_of_pos hu, show tol * (u * M) = u * (tol * M) by ring]
      exact mul_le_mul_iff_right₀ hu
    simp only [this]

/-- **the uniformity test is independent of the unit of length** -/
theorem isUniform_unit (tol u : K) (hu : 0 < u) (n : ℕ) (r : ℕ → K) :
    isUniform tol n (fun i => u * r i) = isUniform tol n r := by
  unfold isUniform
  rw [maxAbs_smul u hu.le, allSmall_smul tol _ u hu]

/-- an exactly uniform grid `r₀ + i·d` passes, whatever the tolerance ≥ 0 -/
theorem isUniform_arith (tol r0 d : K) (ht : 0 ≤ tol) (n : ℕ) : isUniform tol n (fun i => r0 + (i : K) * d) = true := by
  unfold isUniform
  have hM : 0 ≤ tol * maxAbs (fun i => r0 + (i : K) * d) n := mul_nonneg ht (maxAbs_nonneg _ n)
  generalize maxAbs (fun i => r0 + (i : K) * d) n = M at *
  induction (n - 2) with
  | zero => simp [allSmall]
  | succ k ih =>
    simp only [allSmall, ih, Bool.true_and, decide_eq_true_eq]
    show |ddr (fun i => r0 + (i : K) * d) k| ≤ tol * M
    have : ddr (fun i => r0 + (i : K) * d) k = 0 := by simp only [ddr]; push_cast; ring
    rw [this, abs_zero]; exact hM

theorem allSmall_false (tol M : K) (r : ℕ → K) (k : ℕ) (h : tol * M < |ddr r k|) :
    ∀ m, k < m → allSmall tol M r m = false := by
  intro m
  induction m with
  | zero => intro hk; omega
  | succ m ih =>
    intro hk
    simp only [allSmall]
    by_cases hkm : k = m
    · subst hkm
      have : ¬ (HasAbs.abs (ddr r k) ≤ tol * M) := not_le.mpr h
      simp [this]
    · rw [ih (by omega)]; simp

/-- a grid with a second difference above the allowance fails -/
theorem isUniform_false_of_large (tol : K) (n : ℕ) (r : ℕ → K) (k : ℕ) (hk : k < n - 2)
    (h : tol * maxAbs r n < |ddr r k|) : isUniform tol n r = false :=
  allSmall_false tol _ r k h _ hk

/-! non-vacuity: the quadratic grid 0, 1, 4, 9 is non-uniform, in every unit; 0, 2, 4, 6 is uniform -/
example : isUniform (1 / 10 : ℚ) 4 (fun i => (i : ℚ) * i) = false := by
  apply isUniform_false_of_large _ _ _ 0 (by norm_num)
  simp only [maxAbs, ddr, HasAbs.abs]; norm_num
example : isUniform (1 / 10 : ℚ) 4 (fun i => (1 / 1000000 : ℚ) * ((i : ℚ) * i)) = false := by
  rw [isUniform_unit _ _ (by norm_num)]
  apply isUniform_false_of_large _ _ _ 0 (by norm_num)
  simp only [maxAbs, ddr, HasAbs.abs]; norm_num
example : isUniform (0 : ℚ) 4 (fun i => 0 + (i : ℚ) * 2) = true := isUniform_arith 0 0 2 le_rfl 4

end PyAbel.C02Grid
