/-
C09 — Daun degree 3 (`_bs_daun(n, 3)`): the projected cubic-spline basis.

  * the coded antiderivative `P(R, a, b, c, d)` is the line-of-sight integral of the cubic piece `a + b r + c r² + d r³` on `[0, R)`
    (from `C10.polynomial_abel`), so `p(j)[i]` / `q(j)[i]` are, for all `i`, `j`, the Abel integrals of the cubic Hermite value /
    derivative functions of node `j`;
  * the Thomas algorithm of the model solves the (1, 4, 1) system of the clamped spline's node derivatives, the system is
    symmetric, and therefore the final matrix applied to any samples is the Abel integral of the clamped cubic spline through them.
-/
import PyAbel.Props.C11Profiles
import PyAbel.Model.Daun3
import Mathlib.Tactic.FieldSimp

open MeasureTheory Set

namespace PyAbel.C09
open PyAbel PyAbel.Poly PyAbel.C11

/-- closed form of the projection of a cubic piece on `[0, R)` at a line of sight `0 ≤ x < R` -/
theorem polyAbelAt_cubic (a b c d R x : ℝ) (hx : 0 ≤ x) (hxR : x < R) :
    polyAbelAt 4 (cvec [a, b, c, d]) 0 R x
      = Real.sqrt (R ^ 2 - x ^ 2) * (a * 2 + (b + (c * 2 / 3 + d * R / 2) * R) * R + (d * 3 / 4 * R + c * 4 / 3) * x ^ 2)
        + (b + d * 3 / 4 * x ^ 2) * x ^ 2 * (Real.log (Real.sqrt (R ^ 2 - x ^ 2) + R) - if 0 < x then Real.log x else 0) := by
  have hp : (0 : ℝ) < R * R - x * x := by nlinarith
  have hn : ¬ (0 : ℝ) < 0 * 0 - x * x := by nlinarith
  have hs : 0 ≤ Real.sqrt (R * R - x * x) := Real.sqrt_nonneg _
  have e1 : R * R - x * x = R ^ 2 - x ^ 2 := by ring
  simp only [polyAbelAt, sumRange, abelA, abelC, cvec, Distr.pow, sqrt0_pos hp, sqrt0_npos hn]
  rw [ln0_pos (by linarith)]
  by_cases h0 : 0 < x
  · rw [if_pos h0, if_pos h0, ln0_pos (by linarith)]
    norm_num [sumRange, abelC, Distr.pow]
    simp only [e1]
    ring_nf
  · have hx0 : x = 0 := le_antisymm (not_lt.mp h0) hx
    subst hx0
    norm_num [sumRange, abelC, Distr.pow, ln0]
    ring_nf

/-- the coded antiderivative `P(R, a, b, c, d)[i]`, less the lower-limit term, is the projection of the cubic piece
    `a + b r + c r² + d r³` on `[0, R)` -/
theorem daun3P_eq_abel (R i : ℕ) (a b c d : ℤ) (h : i < R) :
    (daun3P R a b c d i : ℝ) - ((b : ℝ) + (d : ℝ) * 3 / 4 * (i : ℝ) ^ 2) * x2logx i
      = Abel (piece 4 (cvec [(a : ℝ), b, c, d]) 0 R) i := by
  have hiR : (i : ℝ) < (R : ℝ) := by exact_mod_cast h
  rw [abel_piece 4 _ 0 R i le_rfl (lt_of_le_of_lt (Nat.cast_nonneg i) hiR) (Nat.cast_nonneg i) hiR,
    polyAbelAt_cubic _ _ _ _ _ _ (Nat.cast_nonneg i) hiR]
  unfold daun3P x2logx
  simp only [sqrt_real, log_real]
  have e1 : ((R ^ 2 : ℕ) : ℝ) = (R : ℝ) ^ 2 := by push_cast; ring
  have e2 : ((i ^ 2 : ℕ) : ℝ) = (i : ℝ) ^ 2 := by push_cast; ring
  rw [e1, e2]
  by_cases h0 : i = 0
  · subst h0; push_cast; simp
  · have hpos : (0 : ℝ) < (i : ℝ) := by exact_mod_cast Nat.pos_of_ne_zero h0
    rw [if_neg h0, if_pos hpos]; push_cast; ring

/-- cubic Hermite value function of node `j`: 1 at `j`, 0 at `j ± 1`, zero slope at all three, zero outside `[j−1, j+1)` -/
noncomputable def hermiteV (j : ℕ) (r : ℝ) : ℝ :=
  if (j : ℝ) ≤ r ∧ r < j + 1 then 2 * (r - j) ^ 3 - 3 * (r - j) ^ 2 + 1
  else if (j : ℝ) - 1 ≤ r ∧ r < j then -2 * (r - j) ^ 3 - 3 * (r - j) ^ 2 + 1 else 0

/-- cubic Hermite derivative function of node `j`: 0 at all three nodes, unit slope at `j`, zero slope at `j ± 1` -/
noncomputable def hermiteD (j : ℕ) (r : ℝ) : ℝ :=
  if (j : ℝ) ≤ r ∧ r < j + 1 then (r - j) ^ 3 - 2 * (r - j) ^ 2 + (r - j)
  else if (j : ℝ) - 1 ≤ r ∧ r < j then (r - j) ^ 3 + 2 * (r - j) ^ 2 + (r - j) else 0

/-- the three cubic pieces (all starting at 0) whose signed sum is a two-piece cubic on `[k, k+1)`, `[k+1, k+2)`:
    `right` on `[0, k+2)`, `left − right` on `[0, k+1)`, `−left` on `[0, k)` -/
theorem two_piece_decomp (k : ℕ) (cl cr : List ℝ) (cm : ℕ → ℝ) (hm : ∀ n, n < 4 → cm n = cvec cl n - cvec cr n)
    (r : ℝ) (hr : 0 ≤ r) :
    (if ((k : ℝ) + 1) ≤ r ∧ r < (k : ℝ) + 2 then evalN 4 (cvec cr) r
      else if (k : ℝ) ≤ r ∧ r < (k : ℝ) + 1 then evalN 4 (cvec cl) r else 0)
    = piece 4 (cvec cr) 0 ((k + 2 : ℕ) : ℝ) r + piece 4 cm 0 ((k + 1 : ℕ) : ℝ) r
        - piece 4 (cvec cl) 0 ((k : ℕ) : ℝ) r := by
  unfold piece
  have evsub : evalN 4 cm r = evalN 4 (cvec cl) r - evalN 4 (cvec cr) r := by
    simp only [evalN, sumRange]
    rw [hm 0 (by norm_num), hm 1 (by norm_num), hm 2 (by norm_num), hm 3 (by norm_num)]; ring
  rw [evsub]
  push_cast
  by_cases h2 : r < (k : ℝ) + 2
  · by_cases h1 : r < (k : ℝ) + 1
    · by_cases h0 : r < (k : ℝ)
      · have a1 : ¬ ((k : ℝ) + 1 ≤ r ∧ r < (k : ℝ) + 2) := fun h => by linarith [h.1]
        have a2 : ¬ ((k : ℝ) ≤ r ∧ r < (k : ℝ) + 1) := fun h => by linarith [h.1]
        rw [if_neg a1, if_neg a2, if_pos ⟨hr, h2⟩, if_pos ⟨hr, h1⟩, if_pos ⟨hr, h0⟩]; ring
      · have a1 : ¬ ((k : ℝ) + 1 ≤ r ∧ r < (k : ℝ) + 2) := fun h => by linarith [h.1]
        have a3 : ¬ (0 ≤ r ∧ r < (k : ℝ)) := fun h => h0 h.2
        rw [if_neg a1, if_pos ⟨not_lt.mp h0, h1⟩, if_pos ⟨hr, h2⟩, if_pos ⟨hr, h1⟩, if_neg a3]; ring
    · have a2 : ¬ (0 ≤ r ∧ r < (k : ℝ) + 1) := fun h => h1 h.2
      have a3 : ¬ (0 ≤ r ∧ r < (k : ℝ)) := fun h => by linarith [h.2]
      rw [if_pos ⟨not_lt.mp h1, h2⟩, if_pos ⟨hr, h2⟩, if_neg a2, if_neg a3]; ring
  · have a1 : ¬ ((k : ℝ) + 1 ≤ r ∧ r < (k : ℝ) + 2) := fun h => h2 h.2
    have a2 : ¬ ((k : ℝ) ≤ r ∧ r < (k : ℝ) + 1) := fun h => by linarith [h.2]
    have b1 : ¬ (0 ≤ r ∧ r < (k : ℝ) + 2) := fun h => h2 h.2
    have b2 : ¬ (0 ≤ r ∧ r < (k : ℝ) + 1) := fun h => by linarith [h.2]
    have b3 : ¬ (0 ≤ r ∧ r < (k : ℝ)) := fun h => by linarith [h.2]
    rw [if_neg a1, if_neg a2, if_neg b1, if_neg b2, if_neg b3]; ring

theorem hermiteV_succ_decomp (k : ℕ) (r : ℝ) (hr : 0 ≤ r) :
    hermiteV (k + 1) r
      = piece 4 (cvec [((-(((k + 1 : ℕ) : ℤ) ^ 2) * (2 * ((k + 1 : ℕ) : ℤ) + 3) + 1 : ℤ) : ℝ), ((6 * ((k + 1 : ℕ) : ℤ) * (((k + 1 : ℕ) : ℤ) + 1) : ℤ) : ℝ),
            ((-3 * (2 * ((k + 1 : ℕ) : ℤ) + 1) : ℤ) : ℝ), ((2 : ℤ) : ℝ)]) 0 ((k + 2 : ℕ) : ℝ) r
        + piece 4 (cvec [((4 * ((k + 1 : ℕ) : ℤ) ^ 3 : ℤ) : ℝ), ((-12 * ((k + 1 : ℕ) : ℤ) ^ 2 : ℤ) : ℝ), ((12 * ((k + 1 : ℕ) : ℤ) : ℤ) : ℝ), ((-4 : ℤ) : ℝ)])
            0 ((k + 1 : ℕ) : ℝ) r
        - piece 4 (cvec [((((k + 1 : ℕ) : ℤ) ^ 2 * (2 * ((k + 1 : ℕ) : ℤ) - 3) + 1 : ℤ) : ℝ), ((-6 * ((k + 1 : ℕ) : ℤ) * (((k + 1 : ℕ) : ℤ) - 1) : ℤ) : ℝ),
            ((3 * (2 * ((k + 1 : ℕ) : ℤ) - 1) : ℤ) : ℝ), ((-2 : ℤ) : ℝ)]) 0 ((k : ℕ) : ℝ) r := by
  rw [← two_piece_decomp k _ _ _ _ r hr]
  · unfold hermiteV
    push_cast
    have c1 : ((k : ℝ) + 1 ≤ r ∧ r < (k : ℝ) + 1 + 1) ↔ ((k : ℝ) + 1 ≤ r ∧ r < (k : ℝ) + 2) := by
      constructor <;> (intro h; exact ⟨h.1, by linarith [h.2]⟩)
    have c2 : ((k : ℝ) + 1 - 1 ≤ r ∧ r < (k : ℝ) + 1) ↔ ((k : ℝ) ≤ r ∧ r < (k : ℝ) + 1) := by
      constructor <;> (intro h; exact ⟨by linarith [h.1], h.2⟩)
    simp only [c1, c2, evalN, sumRange, cvec, Distr.pow]
    by_cases h1 : (k : ℝ) + 1 ≤ r ∧ r < (k : ℝ) + 2
    · rw [if_pos h1, if_pos h1]; norm_num; ring
    · rw [if_neg h1, if_neg h1]
      by_cases h2 : (k : ℝ) ≤ r ∧ r < (k : ℝ) + 1
      · rw [if_pos h2, if_pos h2]; norm_num; ring
      · rw [if_neg h2, if_neg h2]
  · intro n hn
    interval_cases n <;> simp [cvec] <;> ring

/-- projection of a cubic piece on `[0, R)` at pixel `i`, in terms of the coded antiderivative -/
theorem abel_cubic_piece (R i : ℕ) (a b c d : ℤ) :
    Abel (piece 4 (cvec [(a : ℝ), b, c, d]) 0 R) i
      = if i < R then (daun3P R a b c d i : ℝ) - ((b : ℝ) + (d : ℝ) * 3 / 4 * (i : ℝ) ^ 2) * x2logx i else 0 := by
  by_cases h : i < R
  · rw [if_pos h, daun3P_eq_abel R i a b c d h]
  · rw [if_neg h]
    exact abel_piece_of_ge 4 _ 0 R i le_rfl (Nat.cast_nonneg R) (by exact_mod_cast not_lt.mp h)

theorem daun3p_succ_eq_abel (k i : ℕ) : (daun3p (k + 1) i : ℝ) = Abel (hermiteV (k + 1)) i := by
  rw [abel_congr_nonneg (i : ℝ) (fun r hr => hermiteV_succ_decomp k r hr)]
  have iR := losInt_piece 4 (cvec [((-(((k + 1 : ℕ) : ℤ) ^ 2) * (2 * ((k + 1 : ℕ) : ℤ) + 3) + 1 : ℤ) : ℝ), ((6 * ((k + 1 : ℕ) : ℤ) * (((k + 1 : ℕ) : ℤ) + 1) : ℤ) : ℝ),
            ((-3 * (2 * ((k + 1 : ℕ) : ℤ) + 1) : ℤ) : ℝ), ((2 : ℤ) : ℝ)]) 0 ((k + 2 : ℕ) : ℝ) i le_rfl (Nat.cast_nonneg _)
  have iM := losInt_piece 4 (cvec [((4 * ((k + 1 : ℕ) : ℤ) ^ 3 : ℤ) : ℝ), ((-12 * ((k + 1 : ℕ) : ℤ) ^ 2 : ℤ) : ℝ), ((12 * ((k + 1 : ℕ) : ℤ) : ℤ) : ℝ), ((-4 : ℤ) : ℝ)])
            0 ((k + 1 : ℕ) : ℝ) i le_rfl (Nat.cast_nonneg _)
  have iL := losInt_piece 4 (cvec [((((k + 1 : ℕ) : ℤ) ^ 2 * (2 * ((k + 1 : ℕ) : ℤ) - 3) + 1 : ℤ) : ℝ), ((-6 * ((k + 1 : ℕ) : ℤ) * (((k + 1 : ℕ) : ℤ) - 1) : ℤ) : ℝ),
            ((3 * (2 * ((k + 1 : ℕ) : ℤ) - 1) : ℤ) : ℝ), ((-2 : ℤ) : ℝ)]) 0 ((k : ℕ) : ℝ) i le_rfl (Nat.cast_nonneg _)
  rw [abel_sub (iR.add iM) iL, abel_add iR iM, abel_cubic_piece, abel_cubic_piece, abel_cubic_piece]
  unfold daun3p
  simp only [Nat.add_sub_cancel]
  rcases lt_or_ge i k with hA | hge
  · have f1 : i ≤ k + 1 := by omega
    have f2 : i < k + 1 := by omega
    have f3 : ¬ i = k + 1 := by omega
    have f4 : 0 < k + 1 ∧ i + 1 < k + 1 := by omega
    have f5 : ¬ (0 < k + 1 ∧ i + 1 = k + 1) := by omega
    have f6 : i < k + 2 := by omega
    rw [if_pos f1, if_pos f2, if_neg f3, if_pos f4, if_neg f5, if_pos f6, if_pos f2, if_pos hA]
    push_cast; ring
  · rcases Nat.eq_or_lt_of_le hge with hB | hgt
    · subst hB
      have f1 : k ≤ k + 1 := by omega
      have f2 : k < k + 1 := by omega
      have f3 : ¬ k = k + 1 := by omega
      have f4 : ¬ (0 < k + 1 ∧ k + 1 < k + 1) := by omega
      have f5 : 0 < k + 1 ∧ k + 1 = k + 1 := by omega
      have f6 : k < k + 2 := by omega
      have f7 : ¬ k < k := by omega
      rw [if_pos f1, if_pos f2, if_neg f3, if_neg f4, if_pos f5, if_pos f6, if_pos f2, if_neg f7]
      push_cast; ring
    · rcases Nat.eq_or_lt_of_le (Nat.succ_le_of_lt hgt) with hC | hD
      · subst hC
        have f1 : k + 1 ≤ k + 1 := le_rfl
        have f2 : ¬ k + 1 < k + 1 := by omega
        have f4 : ¬ (0 < k + 1 ∧ k + 1 + 1 < k + 1) := by omega
        have f5 : ¬ (0 < k + 1 ∧ k + 1 + 1 = k + 1) := by omega
        have f6 : k + 1 < k + 2 := by omega
        have f7 : ¬ k + 1 < k := by omega
        rw [if_pos f1, if_neg f2, if_pos rfl, if_neg f4, if_neg f5, if_pos f6, if_neg f2, if_neg f7]
        push_cast; ring
      · have f1 : ¬ i ≤ k + 1 := by omega
        have f2 : ¬ i < k + 1 := by omega
        have f3 : ¬ i = k + 1 := by omega
        have f4 : ¬ (0 < k + 1 ∧ i + 1 < k + 1) := by omega
        have f5 : ¬ (0 < k + 1 ∧ i + 1 = k + 1) := by omega
        have f6 : ¬ i < k + 2 := by omega
        have f7 : ¬ i < k := by omega
        rw [if_neg f1, if_neg f2, if_neg f3, if_neg f4, if_neg f5, if_neg f6, if_neg f2, if_neg f7]
        ring

theorem hermiteD_succ_decomp (k : ℕ) (r : ℝ) (hr : 0 ≤ r) :
    hermiteD (k + 1) r
      = piece 4 (cvec [((-((k + 1 : ℕ) : ℤ) * (((k + 1 : ℕ) : ℤ) * (((k + 1 : ℕ) : ℤ) + 2) + 1) : ℤ) : ℝ), ((((k + 1 : ℕ) : ℤ) * (3 * ((k + 1 : ℕ) : ℤ) + 4) + 1 : ℤ) : ℝ), ((-3 * ((k + 1 : ℕ) : ℤ) - 2 : ℤ) : ℝ), ((1 : ℤ) : ℝ)]) 0 ((k + 2 : ℕ) : ℝ) r
        + piece 4 (cvec [((4 * ((k + 1 : ℕ) : ℤ) ^ 2 : ℤ) : ℝ), ((-8 * ((k + 1 : ℕ) : ℤ) : ℤ) : ℝ), ((4 : ℤ) : ℝ), ((0 : ℤ) : ℝ)]) 0 ((k + 1 : ℕ) : ℝ) r
        - piece 4 (cvec [((-((k + 1 : ℕ) : ℤ) * (((k + 1 : ℕ) : ℤ) * (((k + 1 : ℕ) : ℤ) - 2) + 1) : ℤ) : ℝ), ((((k + 1 : ℕ) : ℤ) * (3 * ((k + 1 : ℕ) : ℤ) - 4) + 1 : ℤ) : ℝ), ((-3 * ((k + 1 : ℕ) : ℤ) + 2 : ℤ) : ℝ), ((1 : ℤ) : ℝ)]) 0 ((k : ℕ) : ℝ) r := by
  rw [← two_piece_decomp k _ _ _ _ r hr]
  · unfold hermiteD
    push_cast
    have c1 : ((k : ℝ) + 1 ≤ r ∧ r < (k : ℝ) + 1 + 1) ↔ ((k : ℝ) + 1 ≤ r ∧ r < (k : ℝ) + 2) := by
      constructor <;> (intro h; exact ⟨h.1, by linarith [h.2]⟩)
    have c2 : ((k : ℝ) + 1 - 1 ≤ r ∧ r < (k : ℝ) + 1) ↔ ((k : ℝ) ≤ r ∧ r < (k : ℝ) + 1) := by
      constructor <;> (intro h; exact ⟨by linarith [h.1], h.2⟩)
    simp only [c1, c2, evalN, sumRange, cvec, Distr.pow]
    by_cases h1 : (k : ℝ) + 1 ≤ r ∧ r < (k : ℝ) + 2
    · rw [if_pos h1, if_pos h1]; norm_num; ring
    · rw [if_neg h1, if_neg h1]
      by_cases h2 : (k : ℝ) ≤ r ∧ r < (k : ℝ) + 1
      · rw [if_pos h2, if_pos h2]; norm_num; ring
      · rw [if_neg h2, if_neg h2]
  · intro n hn
    interval_cases n <;> simp [cvec] <;> ring

theorem daun3q_succ_eq_abel (k i : ℕ) : (daun3q (k + 1) i : ℝ) = Abel (hermiteD (k + 1)) i := by
  rw [abel_congr_nonneg (i : ℝ) (fun r hr => hermiteD_succ_decomp k r hr)]
  have iR := losInt_piece 4 (cvec [((-((k + 1 : ℕ) : ℤ) * (((k + 1 : ℕ) : ℤ) * (((k + 1 : ℕ) : ℤ) + 2) + 1) : ℤ) : ℝ), ((((k + 1 : ℕ) : ℤ) * (3 * ((k + 1 : ℕ) : ℤ) + 4) + 1 : ℤ) : ℝ), ((-3 * ((k + 1 : ℕ) : ℤ) - 2 : ℤ) : ℝ), ((1 : ℤ) : ℝ)]) 0 ((k + 2 : ℕ) : ℝ) i le_rfl (Nat.cast_nonneg _)
  have iM := losInt_piece 4 (cvec [((4 * ((k + 1 : ℕ) : ℤ) ^ 2 : ℤ) : ℝ), ((-8 * ((k + 1 : ℕ) : ℤ) : ℤ) : ℝ), ((4 : ℤ) : ℝ), ((0 : ℤ) : ℝ)]) 0 ((k + 1 : ℕ) : ℝ) i le_rfl (Nat.cast_nonneg _)
  have iL := losInt_piece 4 (cvec [((-((k + 1 : ℕ) : ℤ) * (((k + 1 : ℕ) : ℤ) * (((k + 1 : ℕ) : ℤ) - 2) + 1) : ℤ) : ℝ), ((((k + 1 : ℕ) : ℤ) * (3 * ((k + 1 : ℕ) : ℤ) - 4) + 1 : ℤ) : ℝ), ((-3 * ((k + 1 : ℕ) : ℤ) + 2 : ℤ) : ℝ), ((1 : ℤ) : ℝ)]) 0 ((k : ℕ) : ℝ) i le_rfl (Nat.cast_nonneg _)
  rw [abel_sub (iR.add iM) iL, abel_add iR iM, abel_cubic_piece, abel_cubic_piece, abel_cubic_piece]
  unfold daun3q
  simp only [Nat.add_sub_cancel]
  rcases lt_or_ge i k with hA | hge
  · have f1 : i ≤ k + 1 := by omega
    have f2 : i < k + 1 := by omega
    have f3 : ¬ i = k + 1 := by omega
    have f4 : 0 < k + 1 ∧ i + 1 < k + 1 := by omega
    have f5 : ¬ (0 < k + 1 ∧ i + 1 = k + 1) := by omega
    have f6 : i < k + 2 := by omega
    rw [if_pos f1, if_pos f2, if_neg f3, if_pos f4, if_neg f5, if_pos f6, if_pos f2, if_pos hA]
    push_cast; ring
  · rcases Nat.eq_or_lt_of_le hge with hB | hgt
    · subst hB
      have f1 : k ≤ k + 1 := by omega
      have f2 : k < k + 1 := by omega
      have f3 : ¬ k = k + 1 := by omega
      have f4 : ¬ (0 < k + 1 ∧ k + 1 < k + 1) := by omega
      have f5 : 0 < k + 1 ∧ k + 1 = k + 1 := by omega
      have f6 : k < k + 2 := by omega
      have f7 : ¬ k < k := by omega
      rw [if_pos f1, if_pos f2, if_neg f3, if_neg f4, if_pos f5, if_pos f6, if_pos f2, if_neg f7]
      push_cast; ring
    · rcases Nat.eq_or_lt_of_le (Nat.succ_le_of_lt hgt) with hC | hD
      · subst hC
        have f1 : k + 1 ≤ k + 1 := le_rfl
        have f2 : ¬ k + 1 < k + 1 := by omega
        have f4 : ¬ (0 < k + 1 ∧ k + 1 + 1 < k + 1) := by omega
        have f5 : ¬ (0 < k + 1 ∧ k + 1 + 1 = k + 1) := by omega
        have f6 : k + 1 < k + 2 := by omega
        have f7 : ¬ k + 1 < k := by omega
        rw [if_pos f1, if_neg f2, if_pos rfl, if_neg f4, if_neg f5, if_pos f6, if_neg f2, if_neg f7]
        push_cast; ring
      · have f1 : ¬ i ≤ k + 1 := by omega
        have f2 : ¬ i < k + 1 := by omega
        have f3 : ¬ i = k + 1 := by omega
        have f4 : ¬ (0 < k + 1 ∧ i + 1 < k + 1) := by omega
        have f5 : ¬ (0 < k + 1 ∧ i + 1 = k + 1) := by omega
        have f6 : ¬ i < k + 2 := by omega
        have f7 : ¬ i < k := by omega
        rw [if_neg f1, if_neg f2, if_neg f3, if_neg f4, if_neg f5, if_neg f6, if_neg f2, if_neg f7]
        ring

theorem daun3p_zero (i : ℕ) : (daun3p 0 i : ℝ) = if i = 0 then (daun3P 1 1 0 (-3) 2 0 : ℝ) else 0 := by
  unfold daun3p
  by_cases h : i = 0
  · subst h; simp [x2logx]
  · have : ¬ i ≤ 0 := by omega
    simp [h, this]

theorem daun3q_zero (i : ℕ) : (daun3q 0 i : ℝ) = if i = 0 then (daun3P 1 0 1 (-2) 1 0 : ℝ) else 0 := by
  unfold daun3q
  by_cases h : i = 0
  · subst h; simp [x2logx]
  · have : ¬ i ≤ 0 := by omega
    simp [h, this]

theorem hermiteV_zero_decomp (r : ℝ) (hr : 0 ≤ r) :
    hermiteV 0 r = piece 4 (cvec [((1 : ℤ) : ℝ), ((0 : ℤ) : ℝ), ((-3 : ℤ) : ℝ), ((2 : ℤ) : ℝ)]) 0 ((1 : ℕ) : ℝ) r := by
  unfold hermiteV piece
  simp only [evalN, sumRange, cvec, Distr.pow]
  have a2 : ¬ (((0 : ℕ) : ℝ) - 1 ≤ r ∧ r < ((0 : ℕ) : ℝ)) := fun h => by push_cast at h; linarith [h.2]
  by_cases h1 : r < 1
  · have b1 : ((0 : ℕ) : ℝ) ≤ r ∧ r < ((0 : ℕ) : ℝ) + 1 := by push_cast; exact ⟨hr, by linarith⟩
    have b2 : 0 ≤ r ∧ r < ((1 : ℕ) : ℝ) := by push_cast; exact ⟨hr, h1⟩
    rw [if_pos b1, if_pos b2]; norm_num; ring
  · have b1 : ¬ (((0 : ℕ) : ℝ) ≤ r ∧ r < ((0 : ℕ) : ℝ) + 1) := fun h => by push_cast at h; linarith [h.2]
    have b2 : ¬ (0 ≤ r ∧ r < ((1 : ℕ) : ℝ)) := fun h => by push_cast at h; linarith [h.2]
    rw [if_neg b1, if_neg a2, if_neg b2]

theorem hermiteD_zero_decomp (r : ℝ) (hr : 0 ≤ r) :
    hermiteD 0 r = piece 4 (cvec [((0 : ℤ) : ℝ), ((1 : ℤ) : ℝ), ((-2 : ℤ) : ℝ), ((1 : ℤ) : ℝ)]) 0 ((1 : ℕ) : ℝ) r := by
  unfold hermiteD piece
  simp only [evalN, sumRange, cvec, Distr.pow]
  have a2 : ¬ (((0 : ℕ) : ℝ) - 1 ≤ r ∧ r < ((0 : ℕ) : ℝ)) := fun h => by push_cast at h; linarith [h.2]
  by_cases h1 : r < 1
  · have b1 : ((0 : ℕ) : ℝ) ≤ r ∧ r < ((0 : ℕ) : ℝ) + 1 := by push_cast; exact ⟨hr, by linarith⟩
    have b2 : 0 ≤ r ∧ r < ((1 : ℕ) : ℝ) := by push_cast; exact ⟨hr, h1⟩
    rw [if_pos b1, if_pos b2]; norm_num; ring
  · have b1 : ¬ (((0 : ℕ) : ℝ) ≤ r ∧ r < ((0 : ℕ) : ℝ) + 1) := fun h => by push_cast at h; linarith [h.2]
    have b2 : ¬ (0 ≤ r ∧ r < ((1 : ℕ) : ℝ)) := fun h => by push_cast at h; linarith [h.2]
    rw [if_neg b1, if_neg a2, if_neg b2]

/-- **Daun degree 3, value functions**: `p(j)[i]` is the Abel integral of the cubic Hermite value function of node `j` at
    pixel `i`, for all `i`, `j` -/
theorem daun3p_eq_abel (j i : ℕ) : (daun3p j i : ℝ) = Abel (hermiteV j) i := by
  cases j with
  | succ k => exact daun3p_succ_eq_abel k i
  | zero =>
    rw [abel_congr_nonneg (i : ℝ) (fun r hr => hermiteV_zero_decomp r hr), abel_cubic_piece, daun3p_zero]
    by_cases h : i = 0
    · subst h; rw [if_pos rfl, if_pos (by norm_num)]; simp [x2logx]
    · rw [if_neg h, if_neg (by omega)]

/-- **Daun degree 3, derivative functions**: `q(j)[i]` is the Abel integral of the cubic Hermite derivative function of node `j` -/
theorem daun3q_eq_abel (j i : ℕ) : (daun3q j i : ℝ) = Abel (hermiteD j) i := by
  cases j with
  | succ k => exact daun3q_succ_eq_abel k i
  | zero =>
    rw [abel_congr_nonneg (i : ℝ) (fun r hr => hermiteD_zero_decomp r hr), abel_cubic_piece, daun3q_zero]
    by_cases h : i = 0
    · subst h; rw [if_pos rfl, if_pos (by norm_num)]; simp [x2logx]
    · rw [if_neg h, if_neg (by omega)]

/-- symmetry of the tridiagonal (1, 4, 1) form, with the boundary terms it leaves -/
theorem tri_symm_boundary (X Y : ℕ → ℝ) (M : ℕ) :
    sumRange M (fun k => (X k + 4 * X (k + 1) + X (k + 2)) * Y (k + 1))
      = sumRange M (fun k => X (k + 1) * (Y k + 4 * Y (k + 1) + Y (k + 2)))
        + (X 0 * Y 1 - X 1 * Y 0) - (X M * Y (M + 1) - X (M + 1) * Y M) := by
  induction M with
  | zero => simp [sumRange]
  | succ M ih => rw [sumRange_succ, sumRange_succ, ih]; ring

/-- … for sequences that vanish at both ends the form is symmetric -/
theorem tri_symm (X Y : ℕ → ℝ) (M : ℕ) (hX0 : X 0 = 0) (hY0 : Y 0 = 0) (hXM : X (M + 1) = 0) (hYM : Y (M + 1) = 0) :
    sumRange M (fun k => (X k + 4 * X (k + 1) + X (k + 2)) * Y (k + 1))
      = sumRange M (fun k => X (k + 1) * (Y k + 4 * Y (k + 1) + Y (k + 2))) := by
  rw [tri_symm_boundary, hX0, hY0, hXM, hYM]; ring

theorem sumRange_sub (N : ℕ) (a b : ℕ → ℝ) : sumRange N (fun j => a j - b j) = sumRange N a - sumRange N b := by
  induction N with
  | zero => simp [sumRange]
  | succ N ih => rw [sumRange_succ, sumRange_succ, sumRange_succ, ih]; ring

/-- the correction rows `A[2:] += C`, `A[:-2] −= C` contracted with the data: a sum over the interior nodes -/
theorem correction_reindex (f X : ℕ → ℝ) (M : ℕ) :
    sumRange (M + 2) (fun j => f j * ((if 2 ≤ j then X (j - 1) else 0) - (if j + 2 < M + 2 then X (j + 1) else 0)))
      = sumRange M (fun k => X (k + 1) * (f (k + 2) - f k)) := by
  have h1 : sumRange (M + 2) (fun j => f j * (if 2 ≤ j then X (j - 1) else 0)) = sumRange M (fun k => f (k + 2) * X (k + 1)) := by
    rw [sumRange_succ', sumRange_succ']
    simp
  have h2 : sumRange (M + 2) (fun j => f j * (if j + 2 < M + 2 then X (j + 1) else 0)) = sumRange M (fun k => f k * X (k + 1)) := by
    rw [sumRange_succ, sumRange_succ]
    have : sumRange M (fun j => f j * (if j + 2 < M + 2 then X (j + 1) else 0)) = sumRange M (fun k => f k * X (k + 1)) := by
      apply sumRange_congr; intro k hk; rw [if_pos (by omega)]
    rw [this]; simp
  have h3 : sumRange (M + 2) (fun j => f j * ((if 2 ≤ j then X (j - 1) else 0) - (if j + 2 < M + 2 then X (j + 1) else 0)))
      = sumRange (M + 2) (fun j => f j * (if 2 ≤ j then X (j - 1) else 0) - f j * (if j + 2 < M + 2 then X (j + 1) else 0)) := by
    apply sumRange_congr; intro j _; ring
  have h4 : sumRange M (fun k => X (k + 1) * (f (k + 2) - f k)) = sumRange M (fun k => f (k + 2) * X (k + 1) - f k * X (k + 1)) := by
    apply sumRange_congr; intro j _; ring
  rw [h3, sumRange_sub, h1, h2, h4, sumRange_sub]

/-! the Thomas algorithm of the model solves the (1, 4, 1) system -/

theorem thomasC_bounds (k : ℕ) : 0 < (thomasC k : ℝ) ∧ (thomasC k : ℝ) ≤ 1 / 3 := by
  induction k with
  | zero => unfold thomasC; push_cast; constructor <;> norm_num
  | succ k ih =>
    unfold thomasC
    have h4 : (0 : ℝ) < 4 - thomasC k := by linarith [ih.2]
    constructor
    · push_cast; positivity
    · push_cast
      rw [div_le_div_iff₀ h4 (by norm_num)]
      linarith [ih.2]

theorem thomas_pivot_ne (k : ℕ) : (4 : ℝ) - thomasC k ≠ 0 := by
  have := (thomasC_bounds k).2
  intro h; linarith

/-- the back-substituted vector: component `k` of the solution of the `m`-unknown system -/
noncomputable def thomasSol (m : ℕ) (rhs : ℕ → ℝ) (k : ℕ) : ℝ := thomasX m rhs (m - 1 - k) k

theorem thomasSol_last (m : ℕ) (rhs : ℕ → ℝ) : thomasSol (m + 1) rhs m = thomasD rhs m := by
  unfold thomasSol
  have : m + 1 - 1 - m = 0 := by omega
  rw [this]; rfl

theorem thomasSol_step (m : ℕ) (rhs : ℕ → ℝ) (k : ℕ) (hk : k + 1 < m) :
    thomasSol m rhs k = thomasD rhs k - thomasC k * thomasSol m rhs (k + 1) := by
  unfold thomasSol
  have : m - 1 - k = (m - 1 - (k + 1)) + 1 := by omega
  rw [this]; rfl

/-- first row: `4 x₀ + x₁ = rhs₀` (just `4 x₀ = rhs₀` when there is one unknown) -/
theorem thomas_row_zero (m : ℕ) (rhs : ℕ → ℝ) (hm : 0 < m) :
    4 * thomasSol m rhs 0 + (if 1 < m then thomasSol m rhs 1 else 0) = rhs 0 := by
  by_cases h1 : 1 < m
  · rw [if_pos h1, thomasSol_step m rhs 0 (by omega)]
    simp only [thomasD, thomasC]; push_cast; ring
  · have hm1 : m = 0 + 1 := by omega
    rw [if_neg h1, hm1, thomasSol_last]
    simp only [thomasD]; push_cast; ring

/-- the other rows: `x_k + 4 x_{k+1} + x_{k+2} = rhs_{k+1}` (no `x_{k+2}` in the last one) -/
theorem thomas_row_succ (m : ℕ) (rhs : ℕ → ℝ) (k : ℕ) (hk : k + 1 < m) :
    thomasSol m rhs k + 4 * thomasSol m rhs (k + 1) + (if k + 2 < m then thomasSol m rhs (k + 2) else 0) = rhs (k + 1) := by
  have hp := thomas_pivot_ne k
  rw [thomasSol_step m rhs k hk]
  by_cases h2 : k + 2 < m
  · rw [if_pos h2, thomasSol_step m rhs (k + 1) h2]
    have eC : (thomasC (k + 1) : ℝ) = 1 / (4 - thomasC k) := by simp only [thomasC]; push_cast; ring
    have eD : thomasD rhs (k + 1) = (rhs (k + 1) - thomasD rhs k) / (4 - thomasC k) := by simp only [thomasD]; push_cast; ring
    rw [eC, eD]
    generalize thomasC (α := ℝ) k = c at hp ⊢
    generalize thomasD rhs k = D
    generalize thomasSol m rhs (k + 2) = x2
    field_simp
    ring
  · have hm1 : m = (k + 1) + 1 := by omega
    rw [if_neg h2, hm1, thomasSol_last]
    have eD : thomasD rhs (k + 1) = (rhs (k + 1) - thomasD rhs k) / (4 - thomasC k) := by simp only [thomasD]; push_cast; ring
    rw [eD]
    generalize thomasC (α := ℝ) k = c at hp ⊢
    generalize thomasD rhs k = D
    field_simp
    ring

theorem losInt_congr_nonneg {f g : ℝ → ℝ} (x : ℝ) (h : ∀ r, 0 ≤ r → f r = g r) (hg : LosInt g x) : LosInt f x := by
  unfold LosInt at *
  have : (fun z => f (Real.sqrt (x ^ 2 + z ^ 2))) = fun z => g (Real.sqrt (x ^ 2 + z ^ 2)) :=
    funext fun z => h _ (Real.sqrt_nonneg _)
  rw [this]; exact hg

theorem losInt_hermiteV (j : ℕ) (x : ℝ) : LosInt (hermiteV j) x := by
  cases j with
  | zero => exact losInt_congr_nonneg x hermiteV_zero_decomp (losInt_piece 4 _ 0 _ x le_rfl (Nat.cast_nonneg _))
  | succ k =>
    exact losInt_congr_nonneg x (hermiteV_succ_decomp k)
      (((losInt_piece 4 _ 0 _ x le_rfl (Nat.cast_nonneg _)).add (losInt_piece 4 _ 0 _ x le_rfl (Nat.cast_nonneg _))).sub
        (losInt_piece 4 _ 0 _ x le_rfl (Nat.cast_nonneg _)))

theorem losInt_hermiteD (j : ℕ) (x : ℝ) : LosInt (hermiteD j) x := by
  cases j with
  | zero => exact losInt_congr_nonneg x hermiteD_zero_decomp (losInt_piece 4 _ 0 _ x le_rfl (Nat.cast_nonneg _))
  | succ k =>
    exact losInt_congr_nonneg x (hermiteD_succ_decomp k)
      (((losInt_piece 4 _ 0 _ x le_rfl (Nat.cast_nonneg _)).add (losInt_piece 4 _ 0 _ x le_rfl (Nat.cast_nonneg _))).sub
        (losInt_piece 4 _ 0 _ x le_rfl (Nat.cast_nonneg _)))

/-- the cubic spline with values `f` and slopes `d` at the nodes `0 … n−1` (cubic Hermite form) -/
noncomputable def hermiteSpline (n : ℕ) (f d : ℕ → ℝ) (r : ℝ) : ℝ :=
  sumRange n (fun j => f j * hermiteV j r) + sumRange n (fun j => d j * hermiteD j r)

/-- its projection in terms of the coded `p` and `q` -/
theorem abel_hermiteSpline (n i : ℕ) (f d : ℕ → ℝ) :
    Abel (hermiteSpline n f d) i
      = sumRange n (fun j => f j * (daun3p j i : ℝ)) + sumRange n (fun j => d j * (daun3q j i : ℝ)) := by
  have hV := abel_sumRange n f (fun j => hermiteV j) i (fun j _ => losInt_hermiteV j i)
  have hD := abel_sumRange n d (fun j => hermiteD j) i (fun j _ => losInt_hermiteD j i)
  unfold hermiteSpline
  rw [abel_add hV.2 hD.2, hV.1, hD.1]
  congr 1
  · apply sumRange_congr; intro j _; rw [daun3p_eq_abel]
  · apply sumRange_congr; intro j _; rw [daun3q_eq_abel]

/-- **Daun degree 3, assembled**: for any node-slope vector `d` and any per-pixel vector `X` that solve the clamped-spline
    (1, 4, 1) systems (right-hand sides `3(f_{k+1} − f_{k−1})` and `3 q_k(i)`, zero at both ends), the data contracted with
    `p(j)[i] + X[j−1] − X[j+1]` is the Abel integral at pixel `i` of the cubic spline through the data with slopes `d`. -/
theorem daun3_forward_spline (M i : ℕ) (f d X : ℕ → ℝ)
    (hd0 : d 0 = 0) (hdM : d (M + 1) = 0) (hd : ∀ k, k < M → d k + 4 * d (k + 1) + d (k + 2) = 3 * (f (k + 2) - f k))
    (hX0 : X 0 = 0) (hXM : X (M + 1) = 0)
    (hX : ∀ k, k < M → X k + 4 * X (k + 1) + X (k + 2) = 3 * (daun3q (k + 1) i : ℝ)) :
    sumRange (M + 2) (fun j => f j * ((daun3p j i : ℝ)
        + ((if 2 ≤ j then X (j - 1) else 0) - (if j + 2 < M + 2 then X (j + 1) else 0))))
      = Abel (hermiteSpline (M + 2) f d) i := by
  rw [abel_hermiteSpline]
  have hsplit : sumRange (M + 2) (fun j => f j * ((daun3p j i : ℝ)
        + ((if 2 ≤ j then X (j - 1) else 0) - (if j + 2 < M + 2 then X (j + 1) else 0))))
      = sumRange (M + 2) (fun j => f j * (daun3p j i : ℝ))
        + sumRange (M + 2) (fun j => f j * ((if 2 ≤ j then X (j - 1) else 0) - (if j + 2 < M + 2 then X (j + 1) else 0))) := by
    rw [← sumRange_add]; apply sumRange_congr; intro j _; ring
  rw [hsplit, correction_reindex]
  congr 1
  -- Σ X_{k+1} (f_{k+2} − f_k) = Σ d_j q_j
  have e1 : sumRange M (fun k => X (k + 1) * (f (k + 2) - f k))
      = (1 / 3) * sumRange M (fun k => X (k + 1) * (d k + 4 * d (k + 1) + d (k + 2))) := by
    rw [← sumRange_smul]; apply sumRange_congr; intro k hk; rw [hd k hk]; ring
  have e2 : sumRange M (fun k => (X k + 4 * X (k + 1) + X (k + 2)) * d (k + 1))
      = 3 * sumRange M (fun k => d (k + 1) * (daun3q (k + 1) i : ℝ)) := by
    rw [← sumRange_smul]; apply sumRange_congr; intro k hk; rw [hX k hk]; ring
  have e3 : sumRange (M + 2) (fun j => d j * (daun3q j i : ℝ)) = sumRange M (fun k => d (k + 1) * (daun3q (k + 1) i : ℝ)) := by
    rw [sumRange_succ, sumRange_succ', hd0, hdM]; ring
  rw [e1, ← tri_symm X d M hX0 hd0 hXM hdM, e2, e3]; ring

/-- the Thomas solution padded with the two clamped end nodes -/
noncomputable def padSol (M : ℕ) (rhs : ℕ → ℝ) (k : ℕ) : ℝ := if 1 ≤ k ∧ k ≤ M then thomasSol M rhs (k - 1) else 0

theorem padSol_spec (M : ℕ) (rhs : ℕ → ℝ) :
    padSol M rhs 0 = 0 ∧ padSol M rhs (M + 1) = 0
      ∧ ∀ k, k < M → padSol M rhs k + 4 * padSol M rhs (k + 1) + padSol M rhs (k + 2) = rhs k := by
  refine ⟨by simp [padSol], by simp [padSol], ?_⟩
  intro k hk
  cases k with
  | zero =>
    have h := thomas_row_zero M rhs hk
    unfold padSol
    have a0 : ¬ (1 ≤ 0 ∧ 0 ≤ M) := by omega
    have a1 : 1 ≤ 0 + 1 ∧ 0 + 1 ≤ M := by omega
    rw [if_neg a0, if_pos a1]
    by_cases h2 : 1 < M
    · have a2 : 1 ≤ 0 + 2 ∧ 0 + 2 ≤ M := by omega
      rw [if_pos a2]; rw [if_pos h2] at h; simp only [Nat.add_sub_cancel] at *
      have : (0 + 2 - 1) = 1 := by omega
      rw [this]; linarith
    · have a2 : ¬ (1 ≤ 0 + 2 ∧ 0 + 2 ≤ M) := by omega
      rw [if_neg a2]; rw [if_neg h2] at h; simp only [Nat.add_sub_cancel] at *; linarith
  | succ k =>
    have h := thomas_row_succ M rhs k hk
    unfold padSol
    have a0 : 1 ≤ k + 1 ∧ k + 1 ≤ M := by omega
    have a1 : 1 ≤ k + 1 + 1 ∧ k + 1 + 1 ≤ M := by omega
    rw [if_pos a0, if_pos a1]
    have e0 : k + 1 - 1 = k := by omega
    have e1 : k + 1 + 1 - 1 = k + 1 := by omega
    have e2 : k + 1 + 2 - 1 = k + 2 := by omega
    rw [e0, e1, e2]
    by_cases h2 : k + 2 < M
    · have a2 : 1 ≤ k + 1 + 2 ∧ k + 1 + 2 ≤ M := by omega
      rw [if_pos a2]; rw [if_pos h2] at h; linarith
    · have a2 : ¬ (1 ≤ k + 1 + 2 ∧ k + 1 + 2 ≤ M) := by omega
      rw [if_neg a2]; rw [if_neg h2] at h; linarith

/-- node slopes of the clamped cubic spline through `f_0 … f_{M+1}`: zero at both ends, `(1, 4, 1)·d = 3 (f_{k+1} − f_{k−1})` inside -/
noncomputable def clampedSlopes (M : ℕ) (f : ℕ → ℝ) : ℕ → ℝ := padSol M (fun k => 3 * (f (k + 2) - f k))

theorem daun3q_of_gt (j i : ℕ) (h : j < i) : (daun3q j i : ℝ) = 0 := by
  unfold daun3q
  have a1 : ¬ i ≤ j := by omega
  have a2 : ¬ i < j := by omega
  have a3 : ¬ i = j := by omega
  have a4 : ¬ (0 < j ∧ i + 1 < j) := by omega
  have a5 : ¬ (0 < j ∧ i + 1 = j) := by omega
  simp only [if_neg a1, if_neg a2, if_neg a3, if_neg a4, if_neg a5]; ring

/-- a derivative function is odd about its node, so its integral along the line through the centre vanishes -/
theorem daun3q_succ_zero (k : ℕ) : (daun3q (k + 1) 0 : ℝ) = 0 := by
  have hs : ∀ R : ℕ, Real.sqrt (((R ^ 2 : ℕ) : ℝ) - ((0 ^ 2 : ℕ) : ℝ)) = (R : ℝ) := by
    intro R; push_cast; simp
  cases k with
  | zero =>
    unfold daun3q daun3P x2logx
    simp only [sqrt_real, log_real, hs]
    norm_num
  | succ m =>
    unfold daun3q daun3P x2logx
    simp only [sqrt_real, log_real, hs]
    have a1 : (0 : ℕ) ≤ m + 1 + 1 := by omega
    have a2 : (0 : ℕ) < m + 1 + 1 := by omega
    have a3 : ¬ (0 : ℕ) = m + 1 + 1 := by omega
    have a4 : 0 < m + 1 + 1 ∧ 0 + 1 < m + 1 + 1 := by omega
    have a5 : ¬ (0 < m + 1 + 1 ∧ 0 + 1 = m + 1 + 1) := by omega
    rw [if_pos a1, if_pos a2, if_neg a3, if_pos a4, if_neg a5]
    simp only [Nat.add_sub_cancel]
    push_cast
    ring

/-- the per-pixel correction vector of the model (`C[:, i−1]` padded by the clamped ends; zero for the two outer pixel columns) -/
noncomputable def modelX (M i : ℕ) : ℕ → ℝ :=
  if 1 ≤ i ∧ i + 1 < M + 2 then padSol M (fun k => 3 * (daun3q (k + 1) i : ℝ)) else fun _ => 0

theorem modelX_spec (M i : ℕ) (hi : i < M + 2) :
    modelX M i 0 = 0 ∧ modelX M i (M + 1) = 0
      ∧ ∀ k, k < M → modelX M i k + 4 * modelX M i (k + 1) + modelX M i (k + 2) = 3 * (daun3q (k + 1) i : ℝ) := by
  unfold modelX
  by_cases h : 1 ≤ i ∧ i + 1 < M + 2
  · rw [if_pos h]; exact padSol_spec M _
  · rw [if_neg h]
    refine ⟨rfl, rfl, ?_⟩
    intro k hk
    have hq : (daun3q (k + 1) i : ℝ) = 0 := by
      by_cases h0 : i = 0
      · subst h0; exact daun3q_succ_zero k
      · exact daun3q_of_gt (k + 1) i (by omega)
    rw [hq]; ring

/-- the model's matrix entry is `p(j)[i]` plus the correction built from the Thomas solution -/
theorem daun3_entry (M j i : ℕ) (hj : j < M + 2) :
    (daun3 (M + 2) j i : ℝ) = (daun3p j i : ℝ)
      + ((if 2 ≤ j then modelX M i (j - 1) else 0) - (if j + 2 < M + 2 then modelX M i (j + 1) else 0)) := by
  unfold daun3 modelX
  by_cases h : 1 ≤ i ∧ i + 1 < M + 2
  · have hrhs : (fun k => ((3 : ℕ) : ℝ) * (daun3q (k + 1) (i - 1 + 1) : ℝ)) = fun k => 3 * (daun3q (k + 1) i : ℝ) := by
      funext k
      have : i - 1 + 1 = i := by omega
      rw [this]; push_cast; ring
    rw [if_pos h]
    have t1 : (if 2 ≤ j ∧ 1 ≤ i ∧ i + 1 < M + 2 then (daun3C (M + 2) (j - 2) (i - 1) : ℝ) else 0)
        = if 2 ≤ j then padSol M (fun k => 3 * (daun3q (k + 1) i : ℝ)) (j - 1) else 0 := by
      by_cases h2 : 2 ≤ j
      · have a : 1 ≤ j - 1 ∧ j - 1 ≤ M := by omega
        rw [if_pos ⟨h2, h⟩, if_pos h2]
        unfold daun3C padSol thomasSol
        rw [if_pos a, hrhs]
        have e1 : M + 2 - 2 = M := by omega
        have e2 : M + 2 - 3 - (j - 2) = M - 1 - (j - 1 - 1) := by omega
        have e3 : j - 2 = j - 1 - 1 := by omega
        rw [e1, e2, e3]
      · have a : ¬ (2 ≤ j ∧ 1 ≤ i ∧ i + 1 < M + 2) := fun hh => h2 hh.1
        rw [if_neg a, if_neg h2]
    have t2 : (if j + 2 < M + 2 ∧ 1 ≤ i ∧ i + 1 < M + 2 then (daun3C (M + 2) j (i - 1) : ℝ) else 0)
        = if j + 2 < M + 2 then padSol M (fun k => 3 * (daun3q (k + 1) i : ℝ)) (j + 1) else 0 := by
      by_cases h2 : j + 2 < M + 2
      · have a : 1 ≤ j + 1 ∧ j + 1 ≤ M := by omega
        rw [if_pos ⟨h2, h⟩, if_pos h2]
        unfold daun3C padSol thomasSol
        rw [if_pos a, hrhs]
        have e1 : M + 2 - 2 = M := by omega
        have e2 : M + 2 - 3 - j = M - 1 - (j + 1 - 1) := by omega
        have e3 : j + 1 - 1 = j := by omega
        rw [e1, e2, e3]
      · have a : ¬ (j + 2 < M + 2 ∧ 1 ≤ i ∧ i + 1 < M + 2) := fun hh => h2 hh.1
        rw [if_neg a, if_neg h2]
    rw [t1, t2]; ring
  · rw [if_neg h]
    have a1 : ¬ (2 ≤ j ∧ 1 ≤ i ∧ i + 1 < M + 2) := fun hh => h hh.2
    have a2 : ¬ (j + 2 < M + 2 ∧ 1 ≤ i ∧ i + 1 < M + 2) := fun hh => h hh.2
    rw [if_neg a1, if_neg a2]; simp

/-- **Daun degree 3, the matrix the code builds** (`n = M + 2 ≥ 2` nodes): applied to any samples `f`, the coefficient matrix
    gives at every pixel `i < n` the Abel integral of the clamped cubic spline through the samples — the cubic Hermite interpolant
    whose node slopes vanish at both ends and solve `d_{k−1} + 4 d_k + d_{k+1} = 3 (f_{k+1} − f_{k−1})` at the inner nodes. -/
theorem daun3_eq_abel_spline (M i : ℕ) (hi : i < M + 2) (f : ℕ → ℝ) :
    sumRange (M + 2) (fun j => f j * (daun3 (M + 2) j i : ℝ)) = Abel (hermiteSpline (M + 2) f (clampedSlopes M f)) i := by
  obtain ⟨hd0, hdM, hd⟩ := padSol_spec M (fun k => 3 * (f (k + 2) - f k))
  obtain ⟨hX0, hXM, hX⟩ := modelX_spec M i hi
  rw [← daun3_forward_spline M i f (clampedSlopes M f) (modelX M i) hd0 hdM hd hX0 hXM hX]
  apply sumRange_congr
  intro j hj
  rw [daun3_entry M j i hj]

/-- … and what the slopes are -/
theorem clampedSlopes_spec (M : ℕ) (f : ℕ → ℝ) :
    clampedSlopes M f 0 = 0 ∧ clampedSlopes M f (M + 1) = 0
      ∧ ∀ k, k < M → clampedSlopes M f k + 4 * clampedSlopes M f (k + 1) + clampedSlopes M f (k + 2) = 3 * (f (k + 2) - f k) :=
  padSol_spec M _

/-- a single node: the matrix is the projection of its value function -/
theorem daun3_one (f : ℕ → ℝ) : sumRange 1 (fun j => f j * (daun3 1 j 0 : ℝ)) = Abel (hermiteSpline 1 f (fun _ => 0)) (0 : ℕ) := by
  rw [abel_hermiteSpline]
  simp [sumRange, daun3]

/-- non-vacuity: three nodes, data (0, 1, 0): the only inner slope is 3·(0 − 0)/4 = 0 -/
example : clampedSlopes 1 (fun j => if j = 1 then 1 else 0) 1 = 0 := by
  simp [clampedSlopes, padSol, thomasSol, thomasX, thomasD]
end PyAbel.C09
