/-
The Abel transform of the ramp `(R − r)₊` — the building block of the piecewise-linear (degree 1) basis functions:

  Abel (R − r)₊ (x) = y R − x² ln(y + R) + x² ln x,   y = √(R² − x²),   for 0 ≤ x < R     (0 for x ≥ R)

by the fundamental theorem of calculus with the antiderivative  R z − ½ (z s + x² ln(z + s)),  s = √(x² + z²).
-/
import PyAbel.Lemmas.AbelLinear
import Mathlib.Analysis.SpecialFunctions.Sqrt
import Mathlib.Analysis.SpecialFunctions.Log.Deriv
import Mathlib.MeasureTheory.Integral.IntervalIntegral.FundThmCalculus
import Mathlib.Tactic.FieldSimp
import Mathlib.Tactic.Ring

open MeasureTheory Set

namespace PyAbel

/-- `(R − r)₊` -/
noncomputable def ramp (R : ℝ) (r : ℝ) : ℝ := max 0 (R - r)

theorem ramp_continuous (R : ℝ) : Continuous (ramp R) := by unfold ramp; fun_prop

theorem ramp_zero_of_le {R r : ℝ} (h : R ≤ r) : ramp R r = 0 := by
  unfold ramp; exact max_eq_left (by linarith)

theorem losInt_ramp (R x : ℝ) (hR : 0 ≤ R) : LosInt (ramp R) x :=
  losInt_of_continuous (ramp_continuous R) R x hR (fun _ h => ramp_zero_of_le h)

/-- the antiderivative, for `x > 0` -/
private theorem hasDerivAt_F (R x z : ℝ) (hx : 0 < x) (hz : 0 ≤ z) :
    HasDerivAt (fun z => R * z - (1 / 2) * (z * Real.sqrt (x ^ 2 + z ^ 2) + x ^ 2 * Real.log (z + Real.sqrt (x ^ 2 + z ^ 2))))
      (R - Real.sqrt (x ^ 2 + z ^ 2)) z := by
  have hpos : 0 < x ^ 2 + z ^ 2 := by positivity
  have hs : 0 < Real.sqrt (x ^ 2 + z ^ 2) := Real.sqrt_pos.mpr hpos
  have hinner : HasDerivAt (fun z : ℝ => x ^ 2 + z ^ 2) (2 * z) z := by
    have := (hasDerivAt_pow 2 z).const_add (x ^ 2)
    simpa using this
  have hsq : HasDerivAt (fun z : ℝ => Real.sqrt (x ^ 2 + z ^ 2)) (2 * z / (2 * Real.sqrt (x ^ 2 + z ^ 2))) z :=
    hinner.sqrt hpos.ne'
  have hzs : HasDerivAt (fun z : ℝ => z * Real.sqrt (x ^ 2 + z ^ 2))
      (1 * Real.sqrt (x ^ 2 + z ^ 2) + z * (2 * z / (2 * Real.sqrt (x ^ 2 + z ^ 2)))) z := (hasDerivAt_id z).mul hsq
  have hsum : HasDerivAt (fun z : ℝ => z + Real.sqrt (x ^ 2 + z ^ 2)) (1 + 2 * z / (2 * Real.sqrt (x ^ 2 + z ^ 2))) z :=
    (hasDerivAt_id z).add hsq
  have hlog : HasDerivAt (fun z : ℝ => Real.log (z + Real.sqrt (x ^ 2 + z ^ 2)))
      ((1 + 2 * z / (2 * Real.sqrt (x ^ 2 + z ^ 2))) / (z + Real.sqrt (x ^ 2 + z ^ 2))) z :=
    hsum.log (by positivity)
  have hall := ((hasDerivAt_id z).const_mul R).sub (((hzs.add (hlog.const_mul (x ^ 2))).const_mul (1 / 2)))
  have hss : Real.sqrt (x ^ 2 + z ^ 2) * Real.sqrt (x ^ 2 + z ^ 2) = x ^ 2 + z ^ 2 := Real.mul_self_sqrt hpos.le
  have hne : z + Real.sqrt (x ^ 2 + z ^ 2) ≠ 0 := by positivity
  refine hall.congr_deriv ?_
  set s := Real.sqrt (x ^ 2 + z ^ 2) with hsdef
  have hs' : s ≠ 0 := hs.ne'
  have e1 : z * (2 * z / (2 * s)) = z ^ 2 / s := by field_simp
  have e2 : x ^ 2 * ((1 + 2 * z / (2 * s)) / (z + s)) = x ^ 2 / s := by
    have : 1 + 2 * z / (2 * s) = (z + s) / s := by field_simp; ring
    rw [this]; field_simp
  rw [e1, e2]
  have e3 : z ^ 2 / s + x ^ 2 / s = s := by
    rw [← add_div, div_eq_iff hs']; nlinarith [hss]
  linarith [e3]

/-- **Abel transform of the ramp** -/
theorem abel_ramp (R x : ℝ) (hR : 0 ≤ R) (hx : 0 ≤ x) :
    Abel (ramp R) x = if x < R then
        Real.sqrt (R ^ 2 - x ^ 2) * R - x ^ 2 * Real.log (Real.sqrt (R ^ 2 - x ^ 2) + R) + x ^ 2 * Real.log x
      else 0 := by
  split_ifs with hlt
  · -- restrict the line of sight to 0 < z ≤ y
    set y := Real.sqrt (R ^ 2 - x ^ 2) with hy
    have hy2 : 0 ≤ R ^ 2 - x ^ 2 := by nlinarith
    have hy0 : 0 ≤ y := Real.sqrt_nonneg _
    have hyy : y ^ 2 = R ^ 2 - x ^ 2 := Real.sq_sqrt hy2
    have hzero : ∀ z ∈ Ioi (0 : ℝ) \ Ioc 0 y, ramp R (Real.sqrt (x ^ 2 + z ^ 2)) = 0 := by
      intro z hz
      simp only [mem_sdiff, mem_Ioi, mem_Ioc, not_and, not_le] at hz
      obtain ⟨hz0, hzy⟩ := hz
      have hzy' : y < z := hzy hz0
      apply ramp_zero_of_le
      have : R ^ 2 ≤ x ^ 2 + z ^ 2 := by nlinarith
      calc R = Real.sqrt (R ^ 2) := (Real.sqrt_sq hR).symm
        _ ≤ Real.sqrt (x ^ 2 + z ^ 2) := Real.sqrt_le_sqrt this
    have hsub : Ioc (0 : ℝ) y ⊆ Ioi 0 := fun z hz => hz.1
    unfold Abel
    rw [setIntegral_eq_of_subset_of_forall_sdiff_eq_zero (μ := volume) measurableSet_Ioi hsub hzero,
      ← intervalIntegral.integral_of_le hy0]
    -- on [0, y] the ramp is R − s
    have hin : ∀ z ∈ uIcc (0 : ℝ) y, ramp R (Real.sqrt (x ^ 2 + z ^ 2)) = R - Real.sqrt (x ^ 2 + z ^ 2) := by
      intro z hz
      rw [uIcc_of_le hy0] at hz
      unfold ramp
      apply max_eq_right
      have : x ^ 2 + z ^ 2 ≤ R ^ 2 := by nlinarith [hz.1, hz.2]
      have : Real.sqrt (x ^ 2 + z ^ 2) ≤ R := by
        calc Real.sqrt (x ^ 2 + z ^ 2) ≤ Real.sqrt (R ^ 2) := Real.sqrt_le_sqrt this
          _ = R := Real.sqrt_sq hR
      linarith
    rw [intervalIntegral.integral_congr hin]
    rcases eq_or_lt_of_le hx with h0 | hpos
    · -- x = 0: s = z
      subst h0
      have hy' : y = R := by rw [hy]; simp [Real.sqrt_sq hR]
      have hin2 : ∀ z ∈ uIcc (0 : ℝ) y, R - Real.sqrt ((0 : ℝ) ^ 2 + z ^ 2) = R - z := by
        intro z hz
        rw [uIcc_of_le hy0] at hz
        rw [zero_pow two_ne_zero, zero_add, Real.sqrt_sq hz.1]
      rw [intervalIntegral.integral_congr hin2]
      have hd : ∀ z ∈ uIcc (0 : ℝ) y, HasDerivAt (fun z : ℝ => R * z - z ^ 2 / 2) (R - z) z := by
        intro z _
        have := ((hasDerivAt_id z).const_mul R).sub ((hasDerivAt_pow 2 z).div_const 2)
        refine this.congr_deriv ?_
        simp
      rw [intervalIntegral.integral_eq_sub_of_hasDerivAt hd (by apply Continuous.intervalIntegrable; fun_prop)]
      rw [hy']; simp; ring
    · have hd : ∀ z ∈ uIcc (0 : ℝ) y, HasDerivAt
          (fun z => R * z - (1 / 2) * (z * Real.sqrt (x ^ 2 + z ^ 2) + x ^ 2 * Real.log (z + Real.sqrt (x ^ 2 + z ^ 2))))
          (R - Real.sqrt (x ^ 2 + z ^ 2)) z := by
        intro z hz
        rw [uIcc_of_le hy0] at hz
        exact hasDerivAt_F R x z hpos hz.1
      rw [intervalIntegral.integral_eq_sub_of_hasDerivAt hd (by apply Continuous.intervalIntegrable; fun_prop)]
      have hsy : Real.sqrt (x ^ 2 + y ^ 2) = R := by
        rw [hyy, show x ^ 2 + (R ^ 2 - x ^ 2) = R ^ 2 by ring, Real.sqrt_sq hR]
      have hs0 : Real.sqrt (x ^ 2 + (0 : ℝ) ^ 2) = x := by
        rw [zero_pow two_ne_zero, add_zero, Real.sqrt_sq hpos.le]
      rw [hsy, hs0, zero_add]; ring
  · -- the support is inside the cylinder x ≥ R: nothing on the line of sight
    have hle : R ≤ x := not_lt.mp hlt
    unfold Abel
    have : ∀ z ∈ Ioi (0 : ℝ), ramp R (Real.sqrt (x ^ 2 + z ^ 2)) = (fun _ => (0 : ℝ)) z := by
      intro z hz
      apply ramp_zero_of_le
      calc R ≤ x := hle
        _ = Real.sqrt (x ^ 2) := (Real.sqrt_sq hx).symm
        _ ≤ Real.sqrt (x ^ 2 + z ^ 2) := Real.sqrt_le_sqrt (by nlinarith [sq_nonneg z])
    rw [setIntegral_congr_fun measurableSet_Ioi this]
    simp

/-! ### the quadratic ramp `(R − r)₊²` — building block of the degree-2 (quadratic B-spline) basis -/

/-- `(R − r)₊²` -/
noncomputable def qramp (R : ℝ) (r : ℝ) : ℝ := (max 0 (R - r)) ^ 2

theorem qramp_continuous (R : ℝ) : Continuous (qramp R) := by unfold qramp; fun_prop

theorem qramp_zero_of_le {R r : ℝ} (h : R ≤ r) : qramp R r = 0 := by
  unfold qramp; rw [max_eq_left (by linarith)]; ring

theorem losInt_qramp (R x : ℝ) : LosInt (qramp R) x :=
  losInt_of_continuous (qramp_continuous R) (max 0 R) x (le_max_left _ _)
    (fun _ h => qramp_zero_of_le (le_trans (le_max_right _ _) h))

/-- a quadratic ramp that ends at or before the axis projects to nothing -/
theorem abel_qramp_nonpos (R x : ℝ) (hR : R ≤ 0) : Abel (qramp R) x = 0 := by
  unfold Abel
  have : ∀ z ∈ Ioi (0 : ℝ), qramp R (Real.sqrt (x ^ 2 + z ^ 2)) = (fun _ => (0 : ℝ)) z := by
    intro z _
    exact qramp_zero_of_le (le_trans hR (Real.sqrt_nonneg _))
  rw [setIntegral_congr_fun measurableSet_Ioi this]
  simp

private theorem hasDerivAt_G (R x z : ℝ) (hx : 0 < x) (hz : 0 ≤ z) :
    HasDerivAt (fun z => R ^ 2 * z - R * (z * Real.sqrt (x ^ 2 + z ^ 2) + x ^ 2 * Real.log (z + Real.sqrt (x ^ 2 + z ^ 2)))
        + (x ^ 2 * z + z ^ 3 / 3))
      ((R - Real.sqrt (x ^ 2 + z ^ 2)) ^ 2) z := by
  -- ½(z s + x² ln(z + s))′ = s, from the ramp's antiderivative with R = 0
  have h0 := hasDerivAt_F 0 x z hx hz
  have hpos : 0 ≤ x ^ 2 + z ^ 2 := by positivity
  have hss : Real.sqrt (x ^ 2 + z ^ 2) ^ 2 = x ^ 2 + z ^ 2 := Real.sq_sqrt hpos
  have h1 : HasDerivAt (fun z => x ^ 2 * z + z ^ 3 / 3) (x ^ 2 * 1 + 3 * z ^ 2 / 3) z := by
    have := ((hasDerivAt_id z).const_mul (x ^ 2)).add ((hasDerivAt_pow 3 z).div_const 3)
    refine this.congr_deriv ?_
    simp
  have h2 := ((hasDerivAt_id z).const_mul (R ^ 2)).add ((h0.const_mul (2 * R)))
  have h3 := h2.add h1
  have e : (fun z => R ^ 2 * z - R * (z * Real.sqrt (x ^ 2 + z ^ 2) + x ^ 2 * Real.log (z + Real.sqrt (x ^ 2 + z ^ 2)))
        + (x ^ 2 * z + z ^ 3 / 3))
      = fun z => R ^ 2 * id z + 2 * R * (0 * z - 1 / 2 * (z * Real.sqrt (x ^ 2 + z ^ 2)
          + x ^ 2 * Real.log (z + Real.sqrt (x ^ 2 + z ^ 2)))) + (x ^ 2 * z + z ^ 3 / 3) := by
    funext z; simp only [id]; ring
  rw [e]
  refine h3.congr_deriv ?_
  nlinarith [hss]

/-- **Abel transform of the quadratic ramp** -/
theorem abel_qramp (R x : ℝ) (hR : 0 ≤ R) (hx : 0 ≤ x) :
    Abel (qramp R) x = if x < R then
        Real.sqrt (R ^ 2 - x ^ 2) * (2 / 3 * R ^ 2 + 4 / 3 * x ^ 2)
          - 2 * R * x ^ 2 * Real.log (Real.sqrt (R ^ 2 - x ^ 2) + R) + 2 * R * x ^ 2 * Real.log x
      else 0 := by
  split_ifs with hlt
  · set y := Real.sqrt (R ^ 2 - x ^ 2) with hy
    have hy2 : 0 ≤ R ^ 2 - x ^ 2 := by nlinarith
    have hy0 : 0 ≤ y := Real.sqrt_nonneg _
    have hyy : y ^ 2 = R ^ 2 - x ^ 2 := Real.sq_sqrt hy2
    have hzero : ∀ z ∈ Ioi (0 : ℝ) \ Ioc 0 y, qramp R (Real.sqrt (x ^ 2 + z ^ 2)) = 0 := by
      intro z hz
      simp only [mem_sdiff, mem_Ioi, mem_Ioc, not_and, not_le] at hz
      obtain ⟨hz0, hzy⟩ := hz
      have hzy' : y < z := hzy hz0
      apply qramp_zero_of_le
      have : R ^ 2 ≤ x ^ 2 + z ^ 2 := by nlinarith
      calc R = Real.sqrt (R ^ 2) := (Real.sqrt_sq hR).symm
        _ ≤ Real.sqrt (x ^ 2 + z ^ 2) := Real.sqrt_le_sqrt this
    have hsub : Ioc (0 : ℝ) y ⊆ Ioi 0 := fun z hz => hz.1
    unfold Abel
    rw [setIntegral_eq_of_subset_of_forall_sdiff_eq_zero (μ := volume) measurableSet_Ioi hsub hzero,
      ← intervalIntegral.integral_of_le hy0]
    have hin : ∀ z ∈ uIcc (0 : ℝ) y, qramp R (Real.sqrt (x ^ 2 + z ^ 2)) = (R - Real.sqrt (x ^ 2 + z ^ 2)) ^ 2 := by
      intro z hz
      rw [uIcc_of_le hy0] at hz
      unfold qramp
      have : x ^ 2 + z ^ 2 ≤ R ^ 2 := by nlinarith [hz.1, hz.2]
      have : Real.sqrt (x ^ 2 + z ^ 2) ≤ R := by
        calc Real.sqrt (x ^ 2 + z ^ 2) ≤ Real.sqrt (R ^ 2) := Real.sqrt_le_sqrt this
          _ = R := Real.sqrt_sq hR
      rw [max_eq_right (by linarith)]
    rw [intervalIntegral.integral_congr hin]
    rcases eq_or_lt_of_le hx with h0 | hpos
    · subst h0
      have hy' : y = R := by rw [hy]; simp [Real.sqrt_sq hR]
      have hin2 : ∀ z ∈ uIcc (0 : ℝ) y, (R - Real.sqrt ((0 : ℝ) ^ 2 + z ^ 2)) ^ 2 = (R - z) ^ 2 := by
        intro z hz
        rw [uIcc_of_le hy0] at hz
        rw [zero_pow two_ne_zero, zero_add, Real.sqrt_sq hz.1]
      rw [intervalIntegral.integral_congr hin2]
      have hd : ∀ z ∈ uIcc (0 : ℝ) y, HasDerivAt (fun z : ℝ => -((R - z) ^ 3) / 3) ((R - z) ^ 2) z := by
        intro z _
        have h := (((hasDerivAt_id z).const_sub R).pow 3).neg.div_const 3
        refine h.congr_deriv ?_
        simp
      rw [intervalIntegral.integral_eq_sub_of_hasDerivAt hd (by apply Continuous.intervalIntegrable; fun_prop)]
      rw [hy']; simp; ring
    · have hd : ∀ z ∈ uIcc (0 : ℝ) y, HasDerivAt
          (fun z => R ^ 2 * z - R * (z * Real.sqrt (x ^ 2 + z ^ 2) + x ^ 2 * Real.log (z + Real.sqrt (x ^ 2 + z ^ 2)))
            + (x ^ 2 * z + z ^ 3 / 3))
          ((R - Real.sqrt (x ^ 2 + z ^ 2)) ^ 2) z := by
        intro z hz
        rw [uIcc_of_le hy0] at hz
        exact hasDerivAt_G R x z hpos hz.1
      rw [intervalIntegral.integral_eq_sub_of_hasDerivAt hd (by apply Continuous.intervalIntegrable; fun_prop)]
      have hsy : Real.sqrt (x ^ 2 + y ^ 2) = R := by
        rw [hyy, show x ^ 2 + (R ^ 2 - x ^ 2) = R ^ 2 by ring, Real.sqrt_sq hR]
      have hs0 : Real.sqrt (x ^ 2 + (0 : ℝ) ^ 2) = x := by
        rw [zero_pow two_ne_zero, add_zero, Real.sqrt_sq hpos.le]
      have hy3 : y ^ 3 = y * (R ^ 2 - x ^ 2) := by rw [← hyy]; ring
      rw [hsy, hs0, zero_add, hy3]; ring
  · have hle : R ≤ x := not_lt.mp hlt
    unfold Abel
    have : ∀ z ∈ Ioi (0 : ℝ), qramp R (Real.sqrt (x ^ 2 + z ^ 2)) = (fun _ => (0 : ℝ)) z := by
      intro z hz
      apply qramp_zero_of_le
      calc R ≤ x := hle
        _ = Real.sqrt (x ^ 2) := (Real.sqrt_sq hx).symm
        _ ≤ Real.sqrt (x ^ 2 + z ^ 2) := Real.sqrt_le_sqrt (by nlinarith [sq_nonneg z])
    rw [setIntegral_congr_fun measurableSet_Ioi this]
    simp

end PyAbel
