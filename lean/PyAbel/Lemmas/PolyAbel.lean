/-
`Polynomial.abel` is the Abel integral of `Polynomial.func`: the algebra of the coefficient recursion (`abelA` satisfies the
reduction formula of the integrals `J`) and the assembly over monomials.
-/
import PyAbel.Lemmas.AbelPoly
import PyAbel.Lemmas.RealInst
import PyAbel.Model.Polynomial
import Mathlib.Analysis.SpecialFunctions.Integrals.Basic

open MeasureTheory Set

namespace PyAbel
open PyAbel.Poly

theorem distr_pow_eq (x : ℝ) (n : ℕ) : Distr.pow x n = x ^ n := by
  induction n with
  | zero => simp [Distr.pow]
  | succ n ih => simp [Distr.pow, ih, pow_succ]

/-- peel the first term of a finite sum -/
theorem sumRange_succ' (n : ℕ) (f : ℕ → ℝ) : sumRange (n + 1) f = f 0 + sumRange n (fun j => f (j + 1)) := by
  induction n with
  | zero => simp [sumRange]
  | succ n ih =>
    rw [sumRange_succ, ih, sumRange_succ]; ring

/-- the coefficients of `a(n+2)` are those of `a(n)`, shifted by one and scaled by `(n+2)/(n+3)` -/
theorem abelC_shift (n i : ℕ) (hi : 2 * i ≤ n) :
    (abelC (n + 2) (i + 1) : ℝ) = ((n : ℝ) + 2) / ((n : ℝ) + 3) * abelC n i := by
  induction i with
  | zero =>
    simp only [abelC]
    push_cast
    have h1 : ((n : ℝ) + 1) ≠ 0 := by positivity
    have h3 : ((n : ℝ) + 3) ≠ 0 := by positivity
    field_simp; ring
  | succ i ih =>
    have hi' : 2 * i ≤ n := by omega
    rw [abelC, ih hi']
    conv_rhs => rw [abelC]
    have e1 : n + 2 - 2 * (i + 1) = n - 2 * i := by omega
    have e2 : n + 2 - 2 * (i + 1) - 1 = n - 2 * i - 1 := by omega
    rw [e1]; ring

/-- **the coded sum satisfies the reduction formula** -/
theorem abelA_reduction (n : ℕ) (x2 : ℝ) (D : ℕ → ℝ) (Dln : ℝ) :
    abelA (n + 2) x2 D Dln = D (n + 2) / ((n : ℝ) + 3) + ((n : ℝ) + 2) / ((n : ℝ) + 3) * x2 * abelA n x2 D Dln := by
  unfold abelA
  have hdiv : (n + 2) / 2 = n / 2 + 1 := by omega
  have hmod : (n + 2) % 2 = n % 2 := by omega
  rw [hdiv, hmod, sumRange_succ']
  have h0 : (abelC (n + 2) 0 : ℝ) * Distr.pow x2 0 * D (n + 2 - 2 * 0) = D (n + 2) / ((n : ℝ) + 3) := by
    simp only [abelC, Distr.pow]; push_cast; ring
  rw [h0]
  have hsum : sumRange (n / 2 + 1) (fun j => (abelC (n + 2) (j + 1) : ℝ) * Distr.pow x2 (j + 1) * D (n + 2 - 2 * (j + 1)))
      = ((n : ℝ) + 2) / ((n : ℝ) + 3) * x2 * sumRange (n / 2 + 1) (fun j => (abelC n j : ℝ) * Distr.pow x2 j * D (n - 2 * j)) := by
    rw [← sumRange_smul]
    apply sumRange_congr
    intro j hj
    have hj' : 2 * j ≤ n := by omega
    rw [abelC_shift n j hj', show n + 2 - 2 * (j + 1) = n - 2 * j by omega]
    simp only [Distr.pow]; ring
  rw [hsum]
  by_cases hodd : n % 2 = 1
  · rw [if_pos hodd, if_pos hodd, abelC_shift n (n / 2) (by omega)]
    simp only [Distr.pow]; ring
  · rw [if_neg hodd, if_neg hodd]; ring

/-! ### the integrals at `x = 0` and the reduction for every `x ≥ 0` -/

theorem los_zero_of_nonneg {z : ℝ} (hz : 0 ≤ z) : los 0 z = z := by
  unfold los; rw [zero_pow two_ne_zero, zero_add, Real.sqrt_sq hz]

theorem J_zero_x (n : ℕ) (a b : ℝ) (ha : 0 ≤ a) (hab : a ≤ b) :
    J 0 n a b = (b ^ (n + 1) - a ^ (n + 1)) / ((n : ℝ) + 1) := by
  unfold J
  have : ∀ z ∈ uIcc a b, los 0 z ^ n = z ^ n := by
    intro z hz
    rw [uIcc_of_le hab] at hz
    rw [los_zero_of_nonneg (le_trans ha hz.1)]
  rw [intervalIntegral.integral_congr this, integral_pow]

theorem J_reduction' {x : ℝ} (hx : 0 ≤ x) (n : ℕ) (a b : ℝ) (ha : 0 ≤ a) (hab : a ≤ b) :
    ((n : ℝ) + 3) * J x (n + 2) a b
      = (b * los x b ^ (n + 2) - a * los x a ^ (n + 2)) + ((n : ℝ) + 2) * x ^ 2 * J x n a b := by
  rcases eq_or_lt_of_le hx with h0 | hpos
  · subst h0
    rw [J_zero_x (n + 2) a b ha hab, los_zero_of_nonneg (le_trans ha hab), los_zero_of_nonneg ha]
    have h3 : ((n : ℝ) + 3) ≠ 0 := by positivity
    push_cast
    field_simp
    ring
  · exact J_reduction hpos n a b

theorem J_one' {x : ℝ} (hx : 0 ≤ x) (a b : ℝ) (ha : 0 ≤ a) (hab : a ≤ b) :
    J x 1 a b = (1 / 2) * ((b * los x b - a * los x a) + x ^ 2 * (Real.log (b + los x b) - Real.log (a + los x a))) := by
  rcases eq_or_lt_of_le hx with h0 | hpos
  · subst h0
    rw [J_zero_x 1 a b ha hab, los_zero_of_nonneg (le_trans ha hab), los_zero_of_nonneg ha]
    norm_num; ring
  · exact J_one hpos a b ha hab

/-- **`a(k)` is the integral `∫_a^b r^k dy`**, for every degree `k`, every `x ≥ 0` and limits `0 ≤ a ≤ b` -/
theorem abelA_eq_J {x : ℝ} (hx : 0 ≤ x) (a b : ℝ) (ha : 0 ≤ a) (hab : a ≤ b) (k : ℕ) :
    abelA k (x ^ 2) (fun p => b * los x b ^ p - a * los x a ^ p) (Real.log (b + los x b) - Real.log (a + los x a))
      = J x k a b := by
  induction k using Nat.strong_induction_on with
  | _ k ih =>
    match k with
    | 0 =>
      rw [J_zero]
      simp [abelA, abelC, sumRange, Distr.pow]
    | 1 =>
      rw [J_one' hx a b ha hab]
      simp [abelA, abelC, sumRange, Distr.pow]
      ring
    | n + 2 =>
      rw [abelA_reduction, ih n (by omega)]
      have h := J_reduction' hx n a b ha hab
      have h3 : ((n : ℝ) + 3) ≠ 0 := by positivity
      field_simp
      linarith

/-! ### monomial pieces and the assembled polynomial -/

/-- `r ↦ rᵏ` on `[r₁, r₂)`, zero elsewhere -/
noncomputable def monoPiece (r1 r2 : ℝ) (k : ℕ) : ℝ → ℝ := indicator (Ico r1 r2) (fun r => r ^ k)

/-- along a line of sight the piece is the indicator of `[A, B)` times `sᵏ` -/
theorem monoPiece_los (r1 r2 x : ℝ) (k : ℕ) (h1 : 0 ≤ r1) (h12 : r1 ≤ r2) :
    ∀ z ∈ Ioi (0 : ℝ), monoPiece r1 r2 k (los x z)
      = indicator (Ico (hc (r1 ^ 2 - x ^ 2)) (hc (r2 ^ 2 - x ^ 2))) (fun z => los x z ^ k) z := by
  intro z hz
  have h2 : 0 ≤ r2 := le_trans h1 h12
  have h := radius_mem_Ico_iff (x := x) h1 h2 (mem_Ioi.mp hz)
  unfold monoPiece
  by_cases hm : z ∈ Ico (hc (r1 ^ 2 - x ^ 2)) (hc (r2 ^ 2 - x ^ 2))
  · rw [indicator_of_mem hm, indicator_of_mem (by unfold los; exact h.mpr hm)]
  · rw [indicator_of_notMem hm, indicator_of_notMem (by unfold los; exact fun hh => hm (h.mp hh))]

theorem losInt_monoPiece (r1 r2 x : ℝ) (k : ℕ) (h1 : 0 ≤ r1) (h12 : r1 ≤ r2) : LosInt (monoPiece r1 r2 k) x := by
  unfold LosInt
  have hc' : Continuous fun z => los x z ^ k := by have := los_continuous x; fun_prop
  have hI : IntegrableOn (fun z => los x z ^ k) (Ico (hc (r1 ^ 2 - x ^ 2)) (hc (r2 ^ 2 - x ^ 2))) :=
    (hc'.integrableOn_Icc).mono_set Ico_subset_Icc_self
  have h2 := ((integrable_indicator_iff measurableSet_Ico).mpr hI).integrableOn (s := Ioi (0 : ℝ))
  refine h2.congr_fun ?_ measurableSet_Ioi
  intro z hz
  exact (monoPiece_los r1 r2 x k h1 h12 z hz).symm

/-- **Abel transform of a monomial piece** = twice the integral of `sᵏ` between the half-chords -/
theorem abel_monoPiece (r1 r2 x : ℝ) (k : ℕ) (h1 : 0 ≤ r1) (h12 : r1 ≤ r2) :
    Abel (monoPiece r1 r2 k) x = 2 * J x k (hc (r1 ^ 2 - x ^ 2)) (hc (r2 ^ 2 - x ^ 2)) := by
  set A := hc (r1 ^ 2 - x ^ 2) with hA
  set B := hc (r2 ^ 2 - x ^ 2) with hB
  have hA0 : 0 ≤ A := hc_nonneg _
  have hAB : A ≤ B := hc_mono (by nlinarith)
  unfold Abel J
  congr 1
  have e : ∀ z ∈ Ioi (0 : ℝ), monoPiece r1 r2 k (Real.sqrt (x ^ 2 + z ^ 2))
      = indicator (Ico A B) (fun z => los x z ^ k) z := monoPiece_los r1 r2 x k h1 h12
  rw [setIntegral_congr_fun measurableSet_Ioi e, setIntegral_indicator measurableSet_Ico,
    intervalIntegral.integral_of_le hAB]
  rcases eq_or_lt_of_le hA0 with h0 | h0
  · have : Ioi (0 : ℝ) ∩ Ico A B = Ioo A B := by
      ext z; simp only [mem_inter_iff, mem_Ioi, mem_Ico, mem_Ioo, ← h0]
      constructor
      · rintro ⟨h1, _, h3⟩; exact ⟨h1, h3⟩
      · rintro ⟨h1, h3⟩; exact ⟨h1, h1.le, h3⟩
    rw [this, integral_Ioc_eq_integral_Ioo]
  · have : Ioi (0 : ℝ) ∩ Ico A B = Ico A B := by
      ext z; simp only [mem_inter_iff, mem_Ioi, mem_Ico]
      constructor
      · rintro ⟨_, h2⟩; exact h2
      · rintro ⟨h1, h2⟩; exact ⟨lt_of_lt_of_le h0 h1, h1, h2⟩
    rw [this, integral_Ico_eq_integral_Ioo, integral_Ioc_eq_integral_Ioo]

end PyAbel
