/-
The integrals  Fz k z = ∫₀^z (x/ρ)ᵏ dt  for every integer k (negative k: powers of ρ/x), and their two-sided reduction formula

      (1 − k) · Fz k = z fᵏ − k · Fz (k + 2)          (FTC applied to t ↦ t f(t)ᵏ, for every integer k)

which is the recursion `abel.tools.polynomial.SPolynomial` uses downwards (k < 0) and rBasex / SPolynomial use upwards (k > 3).
-/
import PyAbel.Lemmas.AbelFrac
import Mathlib.Analysis.Calculus.Deriv.ZPow

open MeasureTheory Set

namespace PyAbel

/-- `Fz k z = ∫₀^z (x/ρ)ᵏ`, `k ∈ ℤ` -/
noncomputable def Fz (x : ℝ) (k : ℤ) (z : ℝ) : ℝ := ∫ t in (0 : ℝ)..z, fr x t ^ k

theorem fr_pos {x : ℝ} (hx : 0 < x) (z : ℝ) : 0 < fr x z := div_pos hx (los_pos_of_pos hx z)

theorem fr_zpow_continuous {x : ℝ} (hx : 0 < x) (k : ℤ) : Continuous fun t => fr x t ^ k :=
  (fr_continuous hx).zpow₀ k (fun t => Or.inl (fr_pos hx t).ne')

theorem Fz_natCast (x : ℝ) (n : ℕ) (z : ℝ) : Fz x (n : ℤ) z = Fint x n z := by
  unfold Fz Fint; simp only [zpow_natCast]

/-- derivative of `t ↦ t f(t)ᵏ` for integer `k` -/
theorem hasDerivAt_t_fr_zpow {x : ℝ} (hx : 0 < x) (k : ℤ) (z : ℝ) :
    HasDerivAt (fun t => t * fr x t ^ k) ((1 - (k : ℝ)) * fr x z ^ k + (k : ℝ) * fr x z ^ (k + 2)) z := by
  have hf := hasDerivAt_fr hx z
  have hfp := fr_pos hx z
  have hz := (hasDerivAt_zpow k (fr x z) (Or.inl hfp.ne')).comp z hf
  have h := (hasDerivAt_id z).mul hz
  refine h.congr_deriv ?_
  have hpos := los_pos_of_pos hx z
  have hsq := los_sq x z
  simp only [id, one_mul, Function.comp]
  have e1 : fr x z ^ (k + 2) = fr x z ^ k * fr x z ^ 2 := by
    rw [zpow_add₀ hfp.ne']; norm_cast
  have e0 : fr x z ^ (k - 1) = fr x z ^ k / fr x z := by
    rw [zpow_sub₀ hfp.ne', zpow_one]
  have e3 : fr x z ^ 2 = x ^ 2 / los x z ^ 2 := by unfold fr; rw [div_pow]
  have e4 : z ^ 2 = los x z ^ 2 - x ^ 2 := by rw [hsq]; ring
  rw [e1, e0, e3]
  have hl : los x z ^ 2 ≠ 0 := pow_ne_zero 2 hpos.ne'
  field_simp
  rw [e4]; ring

/-- **two-sided reduction formula** -/
theorem Fz_rec {x : ℝ} (hx : 0 < x) (k : ℤ) (z : ℝ) :
    (1 - (k : ℝ)) * Fz x k z = z * fr x z ^ k - (k : ℝ) * Fz x (k + 2) z := by
  unfold Fz
  have hd : ∀ t ∈ uIcc (0 : ℝ) z, HasDerivAt (fun t => t * fr x t ^ k)
      ((1 - (k : ℝ)) * fr x t ^ k + (k : ℝ) * fr x t ^ (k + 2)) t := fun t _ => hasDerivAt_t_fr_zpow hx k t
  have c1 := fr_zpow_continuous hx k
  have c2 := fr_zpow_continuous hx (k + 2)
  have hcont : Continuous fun t => (1 - (k : ℝ)) * fr x t ^ k + (k : ℝ) * fr x t ^ (k + 2) := by fun_prop
  have h := intervalIntegral.integral_eq_sub_of_hasDerivAt hd (hcont.intervalIntegrable 0 z)
  rw [intervalIntegral.integral_add ((c1.const_mul _).intervalIntegrable 0 z) ((c2.const_mul _).intervalIntegrable 0 z),
    intervalIntegral.integral_const_mul, intervalIntegral.integral_const_mul] at h
  simp only [zero_mul, sub_zero] at h
  linarith

/-- the integral between two heights -/
theorem Fz_sub {x : ℝ} (hx : 0 < x) (k : ℤ) (a b : ℝ) : Fz x k b - Fz x k a = ∫ t in a..b, fr x t ^ k := by
  unfold Fz
  have c := fr_zpow_continuous hx k
  rw [intervalIntegral.integral_interval_sub_left (c.intervalIntegrable 0 b) (c.intervalIntegrable 0 a)]

end PyAbel
