/-
The scalar interface instantiated at ℝ (Mathlib's functions).  Everything here is a definition;
no axioms.
-/
import PyAbel.Model.Scalar
import PyAbel.Model.Dasch
import Mathlib.Analysis.SpecialFunctions.Pow.Real
import Mathlib.Analysis.SpecialFunctions.Trigonometric.Basic
import Mathlib.Analysis.SpecialFunctions.Trigonometric.Inverse

namespace PyAbel
noncomputable instance : HasSqrt ℝ := ⟨Real.sqrt⟩
noncomputable instance : HasLog ℝ := ⟨Real.log⟩
noncomputable instance : HasExp ℝ := ⟨Real.exp⟩
noncomputable instance : HasAcos ℝ := ⟨Real.arccos⟩
noncomputable instance : HasPi ℝ := ⟨Real.pi⟩

@[simp] theorem sqrt_real (x : ℝ) : (sqrt x : ℝ) = Real.sqrt x := rfl
@[simp] theorem log_real (x : ℝ) : (log x : ℝ) = Real.log x := rfl
@[simp] theorem exp_real (x : ℝ) : (exp x : ℝ) = Real.exp x := rfl
@[simp] theorem pi_real : (HasPi.pi : ℝ) = Real.pi := rfl
end PyAbel
