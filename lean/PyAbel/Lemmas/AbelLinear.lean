/-
Linearity of the line-of-sight integral on integrable integrands, integrability of the integrands that occur
(shell indicators; continuous functions of bounded support), and the step interpolant of a sampled profile.
-/
import PyAbel.Lemmas.Abel
import PyAbel.Lemmas.Linalg
import Mathlib.MeasureTheory.Integral.IntervalIntegral.Basic
import Mathlib.MeasureTheory.Function.LocallyIntegrable

open MeasureTheory Set

namespace PyAbel

/-- the integrand of `Abel f x` is integrable along the line of sight -/
def LosInt (f : ℝ → ℝ) (x : ℝ) : Prop := IntegrableOn (fun z => f (Real.sqrt (x ^ 2 + z ^ 2))) (Ioi (0 : ℝ))

theorem abel_add {f g : ℝ → ℝ} {x : ℝ} (hf : LosInt f x) (hg : LosInt g x) :
    Abel (fun r => f r + g r) x = Abel f x + Abel g x := by
  unfold Abel
  rw [integral_add hf hg]; ring

theorem abel_sub {f g : ℝ → ℝ} {x : ℝ} (hf : LosInt f x) (hg : LosInt g x) :
    Abel (fun r => f r - g r) x = Abel f x - Abel g x := by
  unfold Abel
  rw [integral_sub hf hg]; ring

theorem abel_const_mul (A : ℝ) (f : ℝ → ℝ) (x : ℝ) : Abel (fun r => A * f r) x = A * Abel f x := by
  unfold Abel
  rw [integral_const_mul]; ring

/-- changing the source at a single radius does not change its Abel transform -/
theorem abel_congr_except {f g : ℝ → ℝ} (r0 x : ℝ) (h : ∀ r, r ≠ r0 → f r = g r) : Abel f x = Abel g x := by
  unfold Abel
  congr 1
  apply setIntegral_congr_ae measurableSet_Ioi
  have hc : ∀ᵐ z ∂(volume : Measure ℝ), z ∉ ({Real.sqrt (r0 ^ 2 - x ^ 2)} : Set ℝ) :=
    (Set.countable_singleton _).ae_notMem volume
  filter_upwards [hc] with z hz hz0
  apply h
  intro he
  apply hz
  rw [Set.mem_singleton_iff, ← he, Real.sq_sqrt (by positivity)]
  have : x ^ 2 + z ^ 2 - x ^ 2 = z ^ 2 := by ring
  rw [this, Real.sqrt_sq (le_of_lt hz0)]

theorem LosInt.add {f g : ℝ → ℝ} {x : ℝ} (hf : LosInt f x) (hg : LosInt g x) : LosInt (fun r => f r + g r) x :=
  Integrable.add hf hg

theorem LosInt.sub {f g : ℝ → ℝ} {x : ℝ} (hf : LosInt f x) (hg : LosInt g x) : LosInt (fun r => f r - g r) x :=
  Integrable.sub hf hg

theorem LosInt.const_mul {f : ℝ → ℝ} {x : ℝ} (A : ℝ) (hf : LosInt f x) : LosInt (fun r => A * f r) x :=
  Integrable.const_mul hf A

theorem LosInt.zero (x : ℝ) : LosInt (fun _ => (0 : ℝ)) x := by
  unfold LosInt; exact integrableOn_zero

/-- only the values at non-negative radii enter the Abel integral -/
theorem abel_congr_nonneg {f g : ℝ → ℝ} (x : ℝ) (h : ∀ r, 0 ≤ r → f r = g r) : Abel f x = Abel g x := by
  unfold Abel
  congr 1
  exact setIntegral_congr_fun measurableSet_Ioi (fun z _ => h _ (Real.sqrt_nonneg _))

/-- a shell indicator is integrable along every line of sight -/
theorem losInt_shell (a b x : ℝ) (ha : 0 ≤ a) (hab : a ≤ b) : LosInt (indicator (Ico a b) 1) x := by
  have hb : 0 ≤ b := le_trans ha hab
  unfold LosInt
  have hcongr : ∀ z ∈ Ioi (0 : ℝ), indicator (Ico (hc (a ^ 2 - x ^ 2)) (hc (b ^ 2 - x ^ 2))) (1 : ℝ → ℝ) z
      = indicator (Ico a b) (1 : ℝ → ℝ) (Real.sqrt (x ^ 2 + z ^ 2)) := by
    intro z hz
    have h := radius_mem_Ico_iff (x := x) ha hb (mem_Ioi.mp hz)
    by_cases hm : z ∈ Ico (hc (a ^ 2 - x ^ 2)) (hc (b ^ 2 - x ^ 2))
    · rw [indicator_of_mem hm, indicator_of_mem (h.mpr hm)]; simp
    · rw [indicator_of_notMem hm, indicator_of_notMem (fun hh => hm (h.mp hh))]
  refine IntegrableOn.congr_fun ?_ hcongr measurableSet_Ioi
  have : IntegrableOn (fun _ : ℝ => (1 : ℝ)) (Ico (hc (a ^ 2 - x ^ 2)) (hc (b ^ 2 - x ^ 2))) :=
    integrableOn_const (by simp [Real.volume_Ico])
  exact (integrable_indicator_iff measurableSet_Ico).mpr this |>.integrableOn

/-- a continuous function vanishing beyond radius `R` is integrable along every line of sight -/
theorem losInt_of_continuous {f : ℝ → ℝ} (hf : Continuous f) (R x : ℝ) (hR : 0 ≤ R) (hsupp : ∀ r, R ≤ r → f r = 0) :
    LosInt f x := by
  unfold LosInt
  set B := hc (R ^ 2 - x ^ 2) with hB
  have hcont : Continuous fun z : ℝ => f (Real.sqrt (x ^ 2 + z ^ 2)) :=
    hf.comp (Real.continuous_sqrt.comp (by fun_prop))
  have h1 : IntegrableOn (fun z : ℝ => f (Real.sqrt (x ^ 2 + z ^ 2))) (Icc 0 B) := hcont.integrableOn_Icc
  refine h1.of_forall_sdiff_eq_zero measurableSet_Ioi ?_
  intro z hz
  simp only [mem_sdiff, mem_Ioi, mem_Icc, not_and, not_le] at hz
  obtain ⟨hz0, hzB⟩ := hz
  have hzB' : B < z := hzB hz0.le
  apply hsupp
  have : ¬ z < hc (R ^ 2 - x ^ 2) := by rw [← hB]; exact not_lt.mpr hzB'.le
  rw [lt_hc_iff hz0] at this
  have h2 : R ^ 2 ≤ x ^ 2 + z ^ 2 := by simp only [not_lt] at this; linarith
  calc R = Real.sqrt (R ^ 2) := (Real.sqrt_sq hR).symm
    _ ≤ Real.sqrt (x ^ 2 + z ^ 2) := Real.sqrt_le_sqrt h2

/-- finite sums: `Abel (Σ_j c_j g_j) = Σ_j c_j Abel g_j` when every `g_j` is integrable along the line of sight -/
theorem abel_sumRange (n : ℕ) (c : ℕ → ℝ) (g : ℕ → ℝ → ℝ) (x : ℝ) (hg : ∀ j, j < n → LosInt (g j) x) :
    Abel (fun r => sumRange n fun j => c j * g j r) x = sumRange n (fun j => c j * Abel (g j) x)
    ∧ LosInt (fun r => sumRange n fun j => c j * g j r) x := by
  induction n with
  | zero =>
    refine ⟨?_, LosInt.zero x⟩
    simp [sumRange, Abel]
  | succ n ih =>
    obtain ⟨h1, h2⟩ := ih (fun j hj => hg j (by omega))
    have h3 : LosInt (fun r => c n * g n r) x := (hg n (by omega)).const_mul _
    refine ⟨?_, by simpa [sumRange] using h2.add h3⟩
    simp only [sumRange]
    rw [abel_add h2 h3, h1, abel_const_mul]

end PyAbel
