/-
Line-of-sight integrals of powers of the direction cosine  f = x/ρ  (ρ = √(x² + z²)):

    F n z = ∫₀^z (x/ρ)ⁿ dt

  * F 0 = z,  F 1 = x (ln(z + ρ) − ln x),  F 2 = x arctan(z/x) = x arccos(x/ρ)
  * reduction  m · F (m+2) = z fᵐ + (m − 1) · F m             (FTC applied to t ↦ t f(t)ᵐ)
  * the Abel integral of a ramp times a power of the direction cosine:
        2 ∫ (R − ρ)₊ (x/ρ)ⁿ⁺¹ dz = 2 (R · F (n+1) y − x · F n y),   y = half-chord at radius R
These are the integrals behind rBasex's radial basis projections `p_{R;n}(r)`.
-/
import PyAbel.Lemmas.PolyAbel
import Mathlib.Analysis.SpecialFunctions.Trigonometric.ArctanDeriv

open MeasureTheory Set

namespace PyAbel

/-- the direction cosine `x/ρ` along the line of sight -/
noncomputable def fr (x z : ℝ) : ℝ := x / los x z

/-- `F n z = ∫₀^z (x/ρ)ⁿ` -/
noncomputable def Fint (x : ℝ) (n : ℕ) (z : ℝ) : ℝ := ∫ t in (0 : ℝ)..z, fr x t ^ n

theorem fr_continuous {x : ℝ} (hx : 0 < x) : Continuous (fr x) := by
  unfold fr
  exact continuous_const.div (los_continuous x) (fun z => (los_pos_of_pos hx z).ne')

theorem hasDerivAt_fr {x : ℝ} (hx : 0 < x) (z : ℝ) : HasDerivAt (fr x) (-(fr x z * z / los x z ^ 2)) z := by
  have hs := hasDerivAt_los hx z
  have hpos := los_pos_of_pos hx z
  have h := (hasDerivAt_const z x).div hs hpos.ne'
  unfold fr
  refine h.congr_deriv ?_
  field_simp
  ring

theorem Fint_zero (x z : ℝ) : Fint x 0 z = z := by
  unfold Fint; simp

/-- derivative of `t ↦ t f(t)ᵐ` -/
theorem hasDerivAt_t_fr_pow {x : ℝ} (hx : 0 < x) (m : ℕ) (z : ℝ) :
    HasDerivAt (fun t => t * fr x t ^ m) ((1 - (m : ℝ)) * fr x z ^ m + (m : ℝ) * fr x z ^ (m + 2)) z := by
  have hf := hasDerivAt_fr hx z
  have hp := hf.pow m
  have h := (hasDerivAt_id z).mul hp
  refine h.congr_deriv ?_
  have hpos := los_pos_of_pos hx z
  have hsq := los_sq x z
  simp only [Pi.pow_apply, id, one_mul]
  rcases Nat.eq_zero_or_pos m with h0 | hm
  · subst h0; simp
  · have e1 : fr x z ^ m = fr x z ^ (m - 1) * fr x z := by rw [← pow_succ]; congr 1; omega
    have e2 : fr x z ^ (m + 2) = fr x z ^ (m - 1) * fr x z * fr x z ^ 2 := by rw [← e1, ← pow_add]
    have e3 : fr x z ^ 2 = x ^ 2 / los x z ^ 2 := by unfold fr; rw [div_pow]
    have e4 : z ^ 2 = los x z ^ 2 - x ^ 2 := by rw [hsq]; ring
    rw [e2, e3]
    rw [e1]
    have hl : los x z ^ 2 ≠ 0 := pow_ne_zero 2 hpos.ne'
    field_simp
    rw [e4]; ring

/-- **reduction formula** -/
theorem Fint_rec {x : ℝ} (hx : 0 < x) (m : ℕ) (z : ℝ) :
    (m : ℝ) * Fint x (m + 2) z = z * fr x z ^ m + ((m : ℝ) - 1) * Fint x m z := by
  unfold Fint
  have hc := fr_continuous hx
  have hd : ∀ t ∈ uIcc (0 : ℝ) z, HasDerivAt (fun t => t * fr x t ^ m)
      ((1 - (m : ℝ)) * fr x t ^ m + (m : ℝ) * fr x t ^ (m + 2)) t := fun t _ => hasDerivAt_t_fr_pow hx m t
  have hcont : Continuous fun t => (1 - (m : ℝ)) * fr x t ^ m + (m : ℝ) * fr x t ^ (m + 2) := by fun_prop
  have h := intervalIntegral.integral_eq_sub_of_hasDerivAt hd (hcont.intervalIntegrable 0 z)
  have c1 : Continuous fun t => fr x t ^ m := by fun_prop
  have c2 : Continuous fun t => fr x t ^ (m + 2) := by fun_prop
  rw [intervalIntegral.integral_add ((c1.const_mul _).intervalIntegrable 0 z) ((c2.const_mul _).intervalIntegrable 0 z),
    intervalIntegral.integral_const_mul, intervalIntegral.integral_const_mul] at h
  simp only [zero_mul, sub_zero] at h
  linarith

theorem los_zero_arg {x : ℝ} (hx : 0 ≤ x) : los x 0 = x := by
  unfold los; simp [Real.sqrt_sq hx]

/-- `F 1 = x (ln(z + ρ) − ln x)` -/
theorem Fint_one {x : ℝ} (hx : 0 < x) (z : ℝ) (hz : 0 ≤ z) :
    Fint x 1 z = x * (Real.log (z + los x z) - Real.log x) := by
  unfold Fint
  have hd : ∀ t ∈ uIcc (0 : ℝ) z, HasDerivAt (fun t => x * Real.log (t + los x t)) (fr x t ^ 1) t := by
    intro t ht
    rw [uIcc_of_le hz] at ht
    have hs := hasDerivAt_los hx t
    have hpos := los_pos_of_pos hx t
    have hsum := (hasDerivAt_id t).add hs
    have hne : t + los x t ≠ 0 := by have := ht.1; positivity
    have hlog := (hsum.log (by simpa using hne)).const_mul x
    refine hlog.congr_deriv ?_
    simp only [Pi.add_apply, id, pow_one, fr]
    have : 1 + t / los x t = (t + los x t) / los x t := by field_simp; ring
    rw [this]; field_simp
  have hcont : Continuous fun t => fr x t ^ 1 := by have := fr_continuous hx; fun_prop
  rw [intervalIntegral.integral_eq_sub_of_hasDerivAt hd (hcont.intervalIntegrable 0 z), los_zero_arg hx.le, zero_add]
  ring

/-- `F 2 = x arctan(z/x)` -/
theorem Fint_two {x : ℝ} (hx : 0 < x) (z : ℝ) : Fint x 2 z = x * Real.arctan (z / x) := by
  unfold Fint
  have hd : ∀ t ∈ uIcc (0 : ℝ) z, HasDerivAt (fun t => x * Real.arctan (t / x)) (fr x t ^ 2) t := by
    intro t _
    have h1 : HasDerivAt (fun t : ℝ => t / x) (1 / x) t := (hasDerivAt_id t).div_const x
    have h2 := (h1.arctan).const_mul x
    refine h2.congr_deriv ?_
    have hpos := los_pos_of_pos hx t
    have hsq := los_sq x t
    unfold fr
    rw [div_pow (x) (los x t), hsq]
    field_simp
  have hcont : Continuous fun t => fr x t ^ 2 := by have := fr_continuous hx; fun_prop
  rw [intervalIntegral.integral_eq_sub_of_hasDerivAt hd (hcont.intervalIntegrable 0 z)]
  simp

/-- `arccos(x/ρ) = arctan(z/x)` on the upper half of the line of sight -/
theorem arccos_fr {x : ℝ} (hx : 0 < x) (z : ℝ) (hz : 0 ≤ z) : Real.arccos (fr x z) = Real.arctan (z / x) := by
  have hpos := los_pos_of_pos hx z
  have hf : 0 < fr x z := div_pos hx hpos
  rw [Real.arccos_eq_arctan hf]
  congr 1
  have hsq := los_sq x z
  have e : 1 - fr x z ^ 2 = (z / los x z) ^ 2 := by
    unfold fr; rw [div_pow, div_pow]; field_simp; rw [hsq]; ring
  rw [e, Real.sqrt_sq (div_nonneg hz hpos.le)]
  unfold fr; field_simp

/-- the Abel integral of a ramp times any radial factor, restricted to the chord where the ramp lives -/
theorem abel_ramp_mul (R x : ℝ) (hR : 0 ≤ R) (hx : 0 ≤ x) (g : ℝ → ℝ) :
    Abel (fun ρ => ramp R ρ * g ρ) x = 2 * ∫ z in (0 : ℝ)..hc (R ^ 2 - x ^ 2), (R - los x z) * g (los x z) := by
  rcases lt_or_ge x R with hlt | hle
  · set y := hc (R ^ 2 - x ^ 2) with hy
    have hy2 : 0 ≤ R ^ 2 - x ^ 2 := by nlinarith
    have hy0 : 0 ≤ y := hc_nonneg _
    have hyy : y ^ 2 = R ^ 2 - x ^ 2 := by rw [hy, hc_of_nonneg hy2]; exact Real.sq_sqrt hy2
    have hzero : ∀ z ∈ Ioi (0 : ℝ) \ Ioc 0 y, ramp R (Real.sqrt (x ^ 2 + z ^ 2)) * g (Real.sqrt (x ^ 2 + z ^ 2)) = 0 := by
      intro z hz
      simp only [mem_sdiff, mem_Ioi, mem_Ioc, not_and, not_le] at hz
      obtain ⟨hz0, hzy⟩ := hz
      have hzy' : y < z := hzy hz0
      have : ramp R (Real.sqrt (x ^ 2 + z ^ 2)) = 0 := by
        apply ramp_zero_of_le
        have : R ^ 2 ≤ x ^ 2 + z ^ 2 := by nlinarith
        calc R = Real.sqrt (R ^ 2) := (Real.sqrt_sq hR).symm
          _ ≤ Real.sqrt (x ^ 2 + z ^ 2) := Real.sqrt_le_sqrt this
      rw [this, zero_mul]
    have hsub : Ioc (0 : ℝ) y ⊆ Ioi 0 := fun z hz => hz.1
    unfold Abel
    rw [setIntegral_eq_of_subset_of_forall_sdiff_eq_zero (μ := volume) measurableSet_Ioi hsub hzero,
      ← intervalIntegral.integral_of_le hy0]
    congr 1
    apply intervalIntegral.integral_congr
    intro z hz
    rw [uIcc_of_le hy0] at hz
    have hle : Real.sqrt (x ^ 2 + z ^ 2) ≤ R := by
      have : x ^ 2 + z ^ 2 ≤ R ^ 2 := by nlinarith [hz.1, hz.2]
      calc Real.sqrt (x ^ 2 + z ^ 2) ≤ Real.sqrt (R ^ 2) := Real.sqrt_le_sqrt this
        _ = R := Real.sqrt_sq hR
    simp only [los]
    unfold ramp
    rw [max_eq_right (by linarith)]
  · have hy : hc (R ^ 2 - x ^ 2) = 0 := hc_of_nonpos (by nlinarith)
    rw [hy, intervalIntegral.integral_same, mul_zero]
    unfold Abel
    have : ∀ z ∈ Ioi (0 : ℝ), ramp R (Real.sqrt (x ^ 2 + z ^ 2)) * g (Real.sqrt (x ^ 2 + z ^ 2)) = (fun _ => (0 : ℝ)) z := by
      intro z _
      have : ramp R (Real.sqrt (x ^ 2 + z ^ 2)) = 0 := by
        apply ramp_zero_of_le
        calc R ≤ x := hle
          _ = Real.sqrt (x ^ 2) := (Real.sqrt_sq hx).symm
          _ ≤ Real.sqrt (x ^ 2 + z ^ 2) := Real.sqrt_le_sqrt (by nlinarith [sq_nonneg z])
      rw [this, zero_mul]
    rw [setIntegral_congr_fun measurableSet_Ioi this]
    simp

/-- **ramp × (x/ρ)ⁿ⁺¹** -/
theorem abel_ramp_frac {x : ℝ} (hx : 0 < x) (R : ℝ) (hR : 0 ≤ R) (n : ℕ) :
    Abel (fun ρ => ramp R ρ * (x / ρ) ^ (n + 1)) x
      = 2 * (R * Fint x (n + 1) (hc (R ^ 2 - x ^ 2)) - x * Fint x n (hc (R ^ 2 - x ^ 2))) := by
  rw [abel_ramp_mul R x hR hx.le]
  congr 1
  set y := hc (R ^ 2 - x ^ 2)
  have hc' := fr_continuous hx
  have e : ∀ z ∈ uIcc (0 : ℝ) y, (R - los x z) * (x / los x z) ^ (n + 1) = R * fr x z ^ (n + 1) - x * fr x z ^ n := by
    intro z _
    have hpos := los_pos_of_pos hx z
    unfold fr
    rw [pow_succ]
    field_simp
  rw [intervalIntegral.integral_congr e]
  have c1 : Continuous fun t => fr x t ^ (n + 1) := by fun_prop
  have c2 : Continuous fun t => fr x t ^ n := by fun_prop
  rw [intervalIntegral.integral_sub ((c1.const_mul _).intervalIntegrable 0 y) ((c2.const_mul _).intervalIntegrable 0 y),
    intervalIntegral.integral_const_mul, intervalIntegral.integral_const_mul]
  rfl

end PyAbel
