/-
Lemmas about the linear-algebra model: finite sums, triangular solves.
-/
import PyAbel.Model.Linalg
import Mathlib.Algebra.Field.Basic
import Mathlib.Tactic.Ring
import Mathlib.Tactic.FieldSimp
import Mathlib.Tactic.Linarith

namespace PyAbel
variable {K : Type} [Field K]

theorem sumRange_succ (n : Nat) (f : Nat → K) : sumRange (n + 1) f = sumRange n f + f n := rfl

theorem sumRange_add (n : Nat) (f g : Nat → K) :
    sumRange n (fun k => f k + g k) = sumRange n f + sumRange n g := by
  induction n with
  | zero => simp [sumRange]
  | succ n ih => simp only [sumRange_succ, ih]; ring

theorem sumRange_smul (n : Nat) (a : K) (f : Nat → K) :
    sumRange n (fun k => a * f k) = a * sumRange n f := by
  induction n with
  | zero => simp [sumRange]
  | succ n ih => simp only [sumRange_succ, ih]; ring

theorem sumRange_congr (n : Nat) (f g : Nat → K) (h : ∀ k, k < n → f k = g k) :
    sumRange n f = sumRange n g := by
  induction n with
  | zero => rfl
  | succ n ih =>
    simp only [sumRange_succ]
    rw [ih (fun k hk => h k (Nat.lt_succ_of_lt hk)), h n (Nat.lt_succ_self n)]

theorem sumRange_zero (n : Nat) : sumRange n (fun _ => (0 : K)) = 0 := by
  induction n with
  | zero => rfl
  | succ n ih => simp [sumRange_succ, ih]

/-- linearity of `x ↦ x · M` -/
theorem vecMat_linear (n : Nat) (M : Nat → Nat → K) (a b : K) (x y : Nat → K) (j : Nat) :
    vecMat n (fun k => a * x k + b * y k) M j = a * vecMat n x M j + b * vecMat n y M j := by
  simp only [vecMat]
  rw [← sumRange_smul, ← sumRange_smul, ← sumRange_add]
  apply sumRange_congr; intro k _; ring

theorem matVec_linear (n : Nat) (M : Nat → Nat → K) (a b : K) (x y : Nat → K) (i : Nat) :
    matVec n M (fun k => a * x k + b * y k) i = a * matVec n M x i + b * matVec n M y i := by
  simp only [matVec]
  rw [← sumRange_smul, ← sumRange_smul, ← sumRange_add]
  apply sumRange_congr; intro k _; ring

/-! ### back substitution -/

theorem backSubstAux_length (U : Nat → Nat → K) (d : Nat → K) (n k : Nat) :
    (backSubstAux U d n k).length = k := by
  induction k with
  | zero => rfl
  | succ k ih => simp [backSubstAux, ih]

/-- `dotFrom f s ys = Σ_m f (s+m) * ys[m]` -/
theorem dotFrom_eq_sum (f : Nat → K) (s : Nat) (ys : List K) :
    dotFrom f s ys = sumRange ys.length (fun m => f (s + m) * ys.getD m 0) := by
  induction ys generalizing s with
  | nil => rfl
  | cons y ys ih =>
    simp only [dotFrom, List.length_cons]
    rw [ih]
    -- Σ_{m<len+1} g m = g 0 + Σ_{m<len} g (m+1)
    have shift : ∀ (n : Nat) (g : Nat → K), sumRange (n + 1) g = g 0 + sumRange n (fun m => g (m + 1)) := by
      intro n g
      induction n with
      | zero => simp [sumRange]
      | succ n ih2 => rw [sumRange_succ, ih2, sumRange_succ]; ring
    rw [shift]
    simp only [Nat.add_zero, List.getD_cons_zero, List.getD_cons_succ]
    congr 1
    apply sumRange_congr; intro m _
    rw [show s + 1 + m = s + (m + 1) by omega]

end PyAbel

namespace PyAbel
variable {K : Type} [Field K]

theorem sumRange_split (i m : Nat) (g : Nat → K) :
    sumRange (i + m) g = sumRange i g + sumRange m (fun t => g (i + t)) := by
  induction m with
  | zero => simp [sumRange]
  | succ m ih => rw [← Nat.add_assoc, sumRange_succ, ih, sumRange_succ]; ring

/-- Invariant of back substitution: every computed entry satisfies its own equation. -/
theorem backSubstAux_eqn (U : Nat → Nat → K) (d : Nat → K) (n : Nat) (hU : ∀ i, i < n → U i i ≠ 0) :
    ∀ k, k ≤ n → ∀ m, m < k →
      U (n - k + m) (n - k + m) * (backSubstAux U d n k).getD m 0
        + dotFrom (U (n - k + m)) (n - k + m + 1) ((backSubstAux U d n k).drop (m + 1)) = d (n - k + m) := by
  intro k
  induction k with
  | zero => intro _ m hm; omega
  | succ k ih =>
    intro hk m hm
    cases m with
    | zero =>
      simp only [backSubstAux, Nat.add_zero, List.getD_cons_zero, List.drop_succ_cons, List.drop_zero]
      have h0 := hU (n - (k + 1)) (by omega)
      field_simp
      ring
    | succ m =>
      have := ih (by omega) m (by omega)
      simp only [backSubstAux, List.getD_cons_succ, List.drop_succ_cons]
      rw [show n - (k + 1) + (m + 1) = n - k + m by omega]
      exact this

/-- **Correctness of back substitution**: for upper-triangular `U` with non-zero diagonal,
    `U · backSubst U d n = d`. -/
theorem backSubst_correct (U : Nat → Nat → K) (d : Nat → K) (n : Nat)
    (hU : ∀ i, i < n → U i i ≠ 0) (htri : ∀ i j, j < i → U i j = 0) (i : Nat) (hi : i < n) :
    matVec n U (fun j => (backSubst U d n).getD j 0) i = d i := by
  have key := backSubstAux_eqn U d n hU n (le_refl n) i hi
  simp only [Nat.sub_self, Nat.zero_add] at key
  rw [← key]
  simp only [matVec, backSubst]
  have hlen := backSubstAux_length U d n n
  -- split Σ_{j<n} = Σ_{j<i} (zero) + j = i + Σ_{j>i}
  obtain ⟨r, rfl⟩ : ∃ r, n = i + 1 + r := ⟨n - i - 1, by omega⟩
  rw [sumRange_split (i + 1) r, sumRange_succ]
  have hz : sumRange i (fun j => U i j * (backSubstAux U d (i + 1 + r) (i + 1 + r)).getD j 0) = 0 := by
    rw [← sumRange_zero (K := K) i]
    apply sumRange_congr; intro j hj; rw [htri i j hj]; ring
  rw [hz, dotFrom_eq_sum]
  simp only [List.length_drop, hlen, zero_add]
  congr 1
  rw [show i + 1 + r - (i + 1) = r by omega]
  apply sumRange_congr; intro t _
  simp [List.getD_eq_getElem?_getD, List.getElem?_drop]

/-- **Back substitution inverts the triangular product**: `backSubst U (U·x) = x`. -/
theorem backSubstAux_matVec (U : Nat → Nat → K) (x : Nat → K) (n : Nat)
    (hU : ∀ i, i < n → U i i ≠ 0) (htri : ∀ i j, j < i → U i j = 0) :
    ∀ k, k ≤ n → ∀ m, m < k → (backSubstAux U (matVec n U x) n k).getD m 0 = x (n - k + m) := by
  intro k
  induction k with
  | zero => intro _ m hm; omega
  | succ k ih =>
    intro hk m hm
    cases m with
    | succ m =>
      simp only [backSubstAux, List.getD_cons_succ]
      rw [ih (by omega) m (by omega)]
      congr 1; omega
    | zero =>
      simp only [backSubstAux, List.getD_cons_zero, Nat.add_zero]
      have h0 := hU (n - (k + 1)) (by omega)
      rw [div_eq_iff h0, dotFrom_eq_sum, backSubstAux_length]
      simp only [matVec]
      obtain ⟨i, rfl⟩ : ∃ i, n = i + 1 + k := ⟨n - (k + 1), by omega⟩
      rw [show i + 1 + k - (k + 1) = i by omega]
      rw [sumRange_split (i + 1) k, sumRange_succ]
      have hz : sumRange i (fun j => U i j * x j) = 0 := by
        rw [← sumRange_zero (K := K) i]
        apply sumRange_congr; intro j hj; rw [htri i j hj]; ring
      rw [hz]
      have hs : sumRange k (fun t => U i (i + 1 + t) * x (i + 1 + t))
          = sumRange k (fun t => U i (i + 1 + t) * (backSubstAux U (matVec (i + 1 + k) U x) (i + 1 + k) k).getD t 0) := by
        apply sumRange_congr; intro t ht
        rw [ih (by omega) t ht]
        congr 2; omega
      rw [hs]; ring

theorem backSubst_matVec (U : Nat → Nat → K) (x : Nat → K) (n : Nat)
    (hU : ∀ i, i < n → U i i ≠ 0) (htri : ∀ i j, j < i → U i j = 0) (i : Nat) (hi : i < n) :
    (backSubst U (matVec n U x) n).getD i 0 = x i := by
  have := backSubstAux_matVec U x n hU htri n (le_refl n) i hi
  simpa [backSubst] using this

end PyAbel

namespace PyAbel
variable {K : Type} [Field K]

theorem sumRange_comm (n m : Nat) (f : Nat → Nat → K) :
    sumRange n (fun i => sumRange m (fun j => f i j)) = sumRange m (fun j => sumRange n (fun i => f i j)) := by
  induction n with
  | zero => simp [sumRange, sumRange_zero]
  | succ n ih => simp only [sumRange_succ, ih, ← sumRange_add]

/-- `A (B x) = (A B) x` for index-function matrices -/
theorem matVec_matVec (n : Nat) (A B : Nat → Nat → K) (x : Nat → K) (i : Nat) :
    matVec n A (matVec n B x) i = sumRange n (fun j => sumRange n (fun k => A i k * B k j) * x j) := by
  simp only [matVec]
  have : ∀ k, A i k * sumRange n (fun j => B k j * x j) = sumRange n (fun j => A i k * B k j * x j) := by
    intro k; rw [← sumRange_smul]; apply sumRange_congr; intro j _; ring
  simp only [this]
  rw [sumRange_comm]
  apply sumRange_congr; intro j _
  rw [mul_comm, ← sumRange_smul]
  apply sumRange_congr; intro k _; ring

/-- `Σ_j δ_ij x_j = x_i` -/
theorem sumRange_delta (n i : Nat) (hi : i < n) (x : Nat → K) :
    sumRange n (fun j => (if i = j then (1 : K) else 0) * x j) = x i := by
  induction n with
  | zero => omega
  | succ n ih =>
    rw [sumRange_succ]
    by_cases h : i = n
    · subst h
      have : sumRange i (fun j => (if i = j then (1 : K) else 0) * x j) = 0 := by
        have hz : ∀ j, j < i → (if i = j then (1 : K) else 0) * x j = (fun _ => (0 : K)) j := by
          intro j hj; rw [if_neg (by omega)]; ring
        rw [sumRange_congr i _ _ hz, sumRange_zero]
      rw [this]; simp
    · rw [ih (by omega), if_neg h]; ring

/-- linearity of back substitution in the right-hand side -/
theorem backSubstAux_linear (U : Nat → Nat → K) (d1 d2 : Nat → K) (a b : K) (n : Nat) :
    ∀ k m, (backSubstAux U (fun i => a * d1 i + b * d2 i) n k).getD m 0
      = a * (backSubstAux U d1 n k).getD m 0 + b * (backSubstAux U d2 n k).getD m 0 := by
  intro k
  induction k with
  | zero => intro m; simp [backSubstAux]
  | succ k ih =>
    intro m
    cases m with
    | succ m => simp only [backSubstAux, List.getD_cons_succ]; exact ih m
    | zero =>
      simp only [backSubstAux, List.getD_cons_zero]
      rw [dotFrom_eq_sum, dotFrom_eq_sum, dotFrom_eq_sum]
      simp only [backSubstAux_length]
      have : sumRange k (fun m => U (n - (k + 1)) (n - (k + 1) + 1 + m) *
            (backSubstAux U (fun i => a * d1 i + b * d2 i) n k).getD m 0)
          = a * sumRange k (fun m => U (n - (k + 1)) (n - (k + 1) + 1 + m) * (backSubstAux U d1 n k).getD m 0)
            + b * sumRange k (fun m => U (n - (k + 1)) (n - (k + 1) + 1 + m) * (backSubstAux U d2 n k).getD m 0) := by
        rw [← sumRange_smul, ← sumRange_smul, ← sumRange_add]
        apply sumRange_congr; intro m _; rw [ih m]; ring
      rw [this]
      by_cases h0 : U (n - (k + 1)) (n - (k + 1)) = 0
      · simp [h0]
      · field_simp; ring

end PyAbel
