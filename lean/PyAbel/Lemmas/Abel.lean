/-
The Abel transform as a line-of-sight integral, and its value on shells (indicator functions of radial intervals).

  Abel f x = 2 ∫_{z>0} f(√(x² + z²)) dz

All analysis statements (C09, C02, C11) are phrased with this definition: no singular kernels appear.
-/
import Mathlib.MeasureTheory.Integral.Bochner.Set
import Mathlib.MeasureTheory.Measure.Lebesgue.Basic
import Mathlib.Analysis.Real.Sqrt
import Mathlib.Tactic.Linarith
import Mathlib.Tactic.Positivity

open MeasureTheory Set

namespace PyAbel

/-- line-of-sight (Abel) integral at distance `x` from the axis -/
noncomputable def Abel (f : ℝ → ℝ) (x : ℝ) : ℝ := 2 * ∫ z in Ioi (0 : ℝ), f (Real.sqrt (x ^ 2 + z ^ 2))

/-- half-chord: `√(max 0 t)` -/
noncomputable def hc (t : ℝ) : ℝ := Real.sqrt (max 0 t)

theorem hc_nonneg (t : ℝ) : 0 ≤ hc t := Real.sqrt_nonneg _

theorem hc_mono {s t : ℝ} (h : s ≤ t) : hc s ≤ hc t := Real.sqrt_le_sqrt (max_le_max (le_refl 0) h)

theorem hc_of_nonneg {t : ℝ} (h : 0 ≤ t) : hc t = Real.sqrt t := by simp [hc, h]

theorem hc_of_nonpos {t : ℝ} (h : t ≤ 0) : hc t = 0 := by unfold hc; rw [max_eq_left h, Real.sqrt_zero]

/-- for `z > 0`:  `hc t ≤ z ↔ t ≤ z²` -/
theorem hc_le_iff {t z : ℝ} (hz : 0 < z) : hc t ≤ z ↔ t ≤ z ^ 2 := by
  unfold hc
  rw [Real.sqrt_le_left hz.le]
  constructor
  · intro h; exact le_trans (le_max_right _ _) h
  · intro h; exact max_le (by positivity) h

/-- for `z > 0`:  `z < hc t ↔ z² < t` -/
theorem lt_hc_iff {t z : ℝ} (hz : 0 < z) : z < hc t ↔ z ^ 2 < t := by
  unfold hc
  rw [Real.lt_sqrt hz.le]
  constructor
  · intro h
    rcases le_total t 0 with ht | ht
    · rw [max_eq_left ht] at h; nlinarith
    · rwa [max_eq_right ht] at h
  · intro h; exact lt_of_lt_of_le h (le_max_right _ _)

/-- along a line of sight (`z > 0`), the radius lies in `[a, b)` exactly when `z ∈ [hc(a²−x²), hc(b²−x²))` -/
theorem radius_mem_Ico_iff {a b x z : ℝ} (ha : 0 ≤ a) (hb : 0 ≤ b) (hz : 0 < z) :
    Real.sqrt (x ^ 2 + z ^ 2) ∈ Ico a b ↔ z ∈ Ico (hc (a ^ 2 - x ^ 2)) (hc (b ^ 2 - x ^ 2)) := by
  have hpos : 0 ≤ x ^ 2 + z ^ 2 := by positivity
  simp only [mem_Ico]
  rw [Real.le_sqrt ha hpos, Real.sqrt_lt hpos hb, hc_le_iff hz, lt_hc_iff hz]
  constructor <;> (intro h; constructor <;> linarith [h.1, h.2])

/-- **Abel transform of a shell**: the indicator of `[a, b)` projects to twice the difference of the half-chords -/
theorem abel_shell (a b x : ℝ) (ha : 0 ≤ a) (hab : a ≤ b) :
    Abel (indicator (Ico a b) 1) x = 2 * (hc (b ^ 2 - x ^ 2) - hc (a ^ 2 - x ^ 2)) := by
  have hb : 0 ≤ b := le_trans ha hab
  set A := hc (a ^ 2 - x ^ 2) with hA
  set B := hc (b ^ 2 - x ^ 2) with hB
  have hA0 : 0 ≤ A := hc_nonneg _
  have hAB : A ≤ B := hc_mono (by nlinarith)
  unfold Abel
  congr 1
  -- the integrand, restricted to z > 0, is the indicator of [A, B)
  have hcongr : ∀ z ∈ Ioi (0 : ℝ), indicator (Ico a b) (1 : ℝ → ℝ) (Real.sqrt (x ^ 2 + z ^ 2))
      = indicator (Ico A B) (1 : ℝ → ℝ) z := by
    intro z hz
    have h := radius_mem_Ico_iff (x := x) ha hb (mem_Ioi.mp hz)
    by_cases hm : z ∈ Ico A B
    · rw [indicator_of_mem hm, indicator_of_mem (h.mpr hm)]; simp
    · rw [indicator_of_notMem hm, indicator_of_notMem (fun hh => hm (h.mp hh))]
  rw [setIntegral_congr_fun measurableSet_Ioi hcongr]
  rw [setIntegral_indicator measurableSet_Ico]
  simp only [Pi.one_apply, setIntegral_const, smul_eq_mul, mul_one, measureReal_def]
  -- Ioi 0 ∩ [A, B) is [A, B) or (0, B)
  rcases eq_or_lt_of_le hA0 with h0 | h0
  · have : Ioi (0 : ℝ) ∩ Ico A B = Ioo 0 B := by
      ext z; simp only [mem_inter_iff, mem_Ioi, mem_Ico, mem_Ioo, ← h0]
      constructor
      · rintro ⟨h1, _, h3⟩; exact ⟨h1, h3⟩
      · rintro ⟨h1, h3⟩; exact ⟨h1, h1.le, h3⟩
    rw [this, Real.volume_Ioo, ENNReal.toReal_ofReal (by linarith), ← h0]
  · have : Ioi (0 : ℝ) ∩ Ico A B = Ico A B := by
      ext z; simp only [mem_inter_iff, mem_Ioi, mem_Ico]
      constructor
      · rintro ⟨_, h2⟩; exact h2
      · rintro ⟨h1, h2⟩; exact ⟨lt_of_lt_of_le h0 h1, h1, h2⟩
    rw [this, Real.volume_Ico, ENNReal.toReal_ofReal (by linarith)]

end PyAbel
