/-
Line-of-sight integrals of radial monomials:  J n a b = ∫_a^b (√(x² + z²))ⁿ dz.

  * base cases  J 0 = b − a,   J 1 = ½ [z s + x² ln(z + s)]_a^b
  * reduction   (n + 3) J (n+2) = [z s^(n+2)]_a^b + (n + 2) x² J n          (integration by parts, as the fundamental theorem
                                                                             of calculus applied to z ↦ z s^(n+2))
and the Abel transform of a monomial piece  r ↦ rⁿ on [r₁, r₂)  as twice such an integral between the half-chords.
These are the identities behind `abel.tools.polynomial.Polynomial`'s closed-form transform.
-/
import PyAbel.Lemmas.AbelRamp
import Mathlib.Analysis.SpecialFunctions.Pow.Deriv
import Mathlib.MeasureTheory.Integral.IntervalIntegral.IntegrationByParts

open MeasureTheory Set

namespace PyAbel

/-- radius along the line of sight -/
noncomputable def los (x z : ℝ) : ℝ := Real.sqrt (x ^ 2 + z ^ 2)

theorem los_continuous (x : ℝ) : Continuous (los x) := by unfold los; fun_prop

theorem los_nonneg (x z : ℝ) : 0 ≤ los x z := Real.sqrt_nonneg _

theorem los_sq (x z : ℝ) : los x z ^ 2 = x ^ 2 + z ^ 2 := Real.sq_sqrt (by positivity)

theorem los_pos_of_pos {x : ℝ} (hx : 0 < x) (z : ℝ) : 0 < los x z := Real.sqrt_pos.mpr (by positivity)

/-- `J n a b = ∫_a^b sⁿ dz` -/
noncomputable def J (x : ℝ) (n : ℕ) (a b : ℝ) : ℝ := ∫ z in a..b, los x z ^ n

theorem J_zero (x a b : ℝ) : J x 0 a b = b - a := by
  unfold J; simp

theorem hasDerivAt_los {x : ℝ} (hx : 0 < x) (z : ℝ) : HasDerivAt (los x) (z / los x z) z := by
  have hpos : 0 < x ^ 2 + z ^ 2 := by positivity
  have hinner : HasDerivAt (fun z : ℝ => x ^ 2 + z ^ 2) (2 * z) z := by
    have := (hasDerivAt_pow 2 z).const_add (x ^ 2)
    simpa using this
  have h := hinner.sqrt hpos.ne'
  unfold los
  refine h.congr_deriv ?_
  field_simp

/-- derivative of `z ↦ z sⁿ⁺²` -/
theorem hasDerivAt_z_los_pow {x : ℝ} (hx : 0 < x) (n : ℕ) (z : ℝ) :
    HasDerivAt (fun z => z * los x z ^ (n + 2)) (((n : ℝ) + 3) * los x z ^ (n + 2) - ((n : ℝ) + 2) * x ^ 2 * los x z ^ n) z := by
  have hs := hasDerivAt_los hx z
  have hp := hs.pow (n + 2)
  have h := (hasDerivAt_id z).mul hp
  refine h.congr_deriv ?_
  have hs0 : los x z ≠ 0 := (los_pos_of_pos hx z).ne'
  have hsq := los_sq x z
  simp only [Pi.pow_apply, id, one_mul, Nat.cast_add, Nat.cast_ofNat, show n + 2 - 1 = n + 1 from rfl]
  have e1 : los x z ^ (n + 2) = los x z ^ n * los x z ^ 2 := by ring
  have e2 : los x z ^ (n + 1) = los x z ^ n * los x z := by ring
  rw [e1, e2]
  have e3 : z * (((n : ℝ) + 2) * (los x z ^ n * los x z) * (z / los x z)) = ((n : ℝ) + 2) * los x z ^ n * z ^ 2 := by
    field_simp
  rw [e3]
  have e4 : z ^ 2 = los x z ^ 2 - x ^ 2 := by rw [hsq]; ring
  rw [e4]; ring

/-- **reduction formula** -/
theorem J_reduction {x : ℝ} (hx : 0 < x) (n : ℕ) (a b : ℝ) :
    ((n : ℝ) + 3) * J x (n + 2) a b
      = (b * los x b ^ (n + 2) - a * los x a ^ (n + 2)) + ((n : ℝ) + 2) * x ^ 2 * J x n a b := by
  unfold J
  have hd : ∀ z ∈ uIcc a b, HasDerivAt (fun z => z * los x z ^ (n + 2))
      (((n : ℝ) + 3) * los x z ^ (n + 2) - ((n : ℝ) + 2) * x ^ 2 * los x z ^ n) z := fun z _ => hasDerivAt_z_los_pow hx n z
  have hcont : Continuous fun z => ((n : ℝ) + 3) * los x z ^ (n + 2) - ((n : ℝ) + 2) * x ^ 2 * los x z ^ n := by
    have := los_continuous x; fun_prop
  have h := intervalIntegral.integral_eq_sub_of_hasDerivAt hd (hcont.intervalIntegrable a b)
  have c1 : Continuous fun z => los x z ^ (n + 2) := by have := los_continuous x; fun_prop
  have c2 : Continuous fun z => los x z ^ n := by have := los_continuous x; fun_prop
  rw [intervalIntegral.integral_sub ((c1.const_mul _).intervalIntegrable a b) ((c2.const_mul _).intervalIntegrable a b),
    intervalIntegral.integral_const_mul, intervalIntegral.integral_const_mul] at h
  linarith

/-- the first odd case (from the ramp's antiderivative) -/
theorem J_one {x : ℝ} (hx : 0 < x) (a b : ℝ) (ha : 0 ≤ a) (hab : a ≤ b) :
    J x 1 a b = (1 / 2) * ((b * los x b - a * los x a) + x ^ 2 * (Real.log (b + los x b) - Real.log (a + los x a))) := by
  unfold J
  have hd : ∀ z ∈ uIcc a b, HasDerivAt
      (fun z => (1 / 2) * (z * los x z + x ^ 2 * Real.log (z + los x z))) (los x z ^ 1) z := by
    intro z hz
    rw [uIcc_of_le hab] at hz
    have hz0 : 0 ≤ z := le_trans ha hz.1
    have hs := hasDerivAt_los hx z
    have hspos := los_pos_of_pos hx z
    have hzs := (hasDerivAt_id z).mul hs
    have hsum := (hasDerivAt_id z).add hs
    have hlog := hsum.log (by simp only [Pi.add_apply, id]; positivity)
    have hall := (hzs.add (hlog.const_mul (x ^ 2))).const_mul (1 / 2 : ℝ)
    refine hall.congr_deriv ?_
    have hsq := los_sq x z
    have hne : z + los x z ≠ 0 := by positivity
    simp only [Pi.add_apply, id, pow_one, one_mul]
    have e3 : z * (z / los x z) = z ^ 2 / los x z := by ring
    have e4 : x ^ 2 * ((1 + z / los x z) / (z + los x z)) = x ^ 2 / los x z := by
      have : 1 + z / los x z = (z + los x z) / los x z := by field_simp; ring
      rw [this]; field_simp
    rw [e3, e4]
    have e5 : z ^ 2 / los x z + x ^ 2 / los x z = los x z := by
      rw [← add_div, div_eq_iff hspos.ne']; nlinarith [hsq]
    linarith [e5]
  have hcont : Continuous fun z => los x z ^ 1 := by have := los_continuous x; fun_prop
  rw [intervalIntegral.integral_eq_sub_of_hasDerivAt hd (hcont.intervalIntegrable a b)]
  ring

end PyAbel
