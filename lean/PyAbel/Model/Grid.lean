/-
Model of `abel.direct.is_uniform_sampling(r)` (after repair F71): the second differences of the radial grid are compared with
1e-13 times the grid's largest coordinate — `np.allclose(np.diff(np.diff(r)), 0, atol=1e-13 * np.max(np.abs(r)))`.
-/
import PyAbel.Model.Scalar
import PyAbel.Model.Polar
namespace PyAbel.Grid

section
variable {α : Type} [Zero α] [Sub α] [Mul α] [HasAbs α] [Max α] [LE α] [DecidableLE α]

/-- `np.max(np.abs(r))` of the `n` samples (0 for an empty grid) -/
def maxAbs (r : Nat → α) : Nat → α
  | 0 => 0
  | k + 1 => max (maxAbs r k) (HasAbs.abs (r k))

/-- second difference `(r[i+2] − r[i+1]) − (r[i+1] − r[i])` -/
def ddr (r : Nat → α) (i : Nat) : α := (r (i + 2) - r (i + 1)) - (r (i + 1) - r i)

/-- all of the first `m` second differences are within `tol · M` of zero -/
def allSmall (tol M : α) (r : Nat → α) : Nat → Bool
  | 0 => true
  | k + 1 => allSmall tol M r k && decide (HasAbs.abs (ddr r k) ≤ tol * M)

/-- `is_uniform_sampling(r)` for a grid of `n` samples, with the relative tolerance `tol` (1e-13 in the code) -/
def isUniform (tol : α) (n : Nat) (r : Nat → α) : Bool := allSmall tol (maxAbs r n) r (n - 2)
end
end PyAbel.Grid
