/-
Model of `abel.rbasex._bs_rbasex`: the radial parts `p_{R;n}(r)` of the projected rBasex basis functions, as the code
computes them — the antiderivatives `F[n]` (closed forms for n = −1 … 3, the recursion `F[n+2] = (z fⁿ + (n−1) F[n]) / n`
above), `rFRF = r F[n−1] − R F[n]` and the second difference over `R − 1, R, R + 1`.
-/
import PyAbel.Model.Scalar
import PyAbel.Model.Distributions
namespace PyAbel.RbxBasis
open PyAbel.Distr (pow)

section
variable {α : Type} [Zero α] [One α] [Add α] [Sub α] [Mul α] [Div α] [NatCast α] [HasSqrt α] [HasLog α] [HasAcos α]

/-- `F[k − 1]` of the code at `ρ = rho` for the column `r` (index 0 is `F[−1]`);  `z = √(ρ² − r²)`, `f = r/ρ` -/
def F (r rho : α) : Nat → α
  | 0 => (sqrt (rho * rho - r * r) / (r / rho) + r * log (sqrt (rho * rho - r * r) + rho)) / ((2 : Nat) : α)
  | 1 => sqrt (rho * rho - r * r)
  | 2 => r * log (sqrt (rho * rho - r * r) + rho)
  | 3 => r * acos (r / rho)
  | 4 => sqrt (rho * rho - r * r) * (r / rho)
  | k + 5 => (sqrt (rho * rho - r * r) * pow (r / rho) (k + 2) + ((k + 1 : Nat) : α) * F r rho (k + 3)) / ((k + 2 : Nat) : α)

/-- `rFRF` for angular order `n`, column `r`, at `R'` (`ρ = max(r, R')`) -/
def rFRF (n r R' : Nat) : α :=
  let rho : α := if R' < r then (r : α) else (R' : α)
  (r : α) * F (r : α) rho n - (R' : α) * F (r : α) rho (n + 1)

/-- `P[i][R, r]` for `1 ≤ r ≤ R` -/
def p (n R r : Nat) : α :=
  ((2 : Nat) : α) * (((2 : Nat) : α) * rFRF n r R - rFRF n r (R + 1) - rFRF n r (R - 1))

/-- the whole matrix entry, with the code's conventions for the first column and above the diagonal -/
def P (n R r : Nat) : α :=
  if r = 0 then (if R = 0 then 1 else if n = 0 then ((2 : Nat) : α) else 0)
  else if R < r then 0 else p n R r

end
end PyAbel.RbxBasis
