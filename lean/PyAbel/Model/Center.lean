/-
Model of abel/tools/center.py : set_center (whole-pixel path: integer origin or order = 0)
and the trimming logic of center_image.

Each axis is handled independently by the code, so the model is a per-axis index map
`AxisMap`: output length and, for each output index, the source index it copies
(`none` = zero fill).
-/
import PyAbel.Model.Img
namespace PyAbel

inductive Crop | maintainSize | validRegion | maintainData
  deriving DecidableEq, Repr

structure AxisMap where
  size : Nat
  src  : Nat → Option Nat

/-- axis not selected (or origin component `None`): untouched -/
def AxisMap.id (n : Nat) : AxisMap := ⟨n, fun i => some i⟩

/-- `origin[a] += shape[a]` for negative origins -/
def wrapOrigin (n : Nat) (o : Int) : Int := if o < 0 then o + n else o

/-- One axis of `set_center` for an absolute whole-pixel origin `o` (after wrapping; the code does
    not range-check it, neither does the model: arithmetic is over `Int` exactly as in Python). -/
def centerAxis (crop : Crop) (n : Nat) (o : Int) : AxisMap :=
  let c : Int := (n / 2 : Nat)
  let o' : Int := (n : Int) - 1 - o             -- complement (from the other edge)
  match crop with
  | .maintainSize =>
    -- delta = c - o ; out[dst] = data[src]: out[i] = data[i - delta] where that exists
    ⟨n, fun i =>
      let k : Int := (i : Int) - (c - o)
      if 0 ≤ k ∧ k < n then some k.toNat else none⟩
  | .validRegion =>
    let d := min o o'
    -- data[o - d : o + d + 1]   (Python slice semantics for the sizes that occur: o-d ≥ 0)
    ⟨(2 * d + 1).toNat, fun i => some ((o - d) + i).toNat⟩
  | .maintainData =>
    let d := max o o'
    -- np.pad(data, (d - o, d - o'))
    ⟨(n + (d - o) + (d - o')).toNat, fun i =>
      let k : Int := (i : Int) - (d - o)
      if 0 ≤ k ∧ k < n then some k.toNat else none⟩

/-- Python `round()` of `p/2^s`-style halves is not needed: with `order = 0` the code rounds a
    fractional origin half-to-even; the model receives the origin as a rational `num/den`. -/
def roundHalfEven (num : Int) (den : Nat) : Int :=
  let q := num / den            -- floor (`Int./` is Euclidean division; `den > 0`)
  let r := num - q * den
  if 2 * r < den then q else if 2 * r > den then q + 1 else if q % 2 = 0 then q else q + 1

section
variable {α : Type} [Zero α]

/-- apply a row map and a column map to an image -/
def applyMaps (rm cm : AxisMap) (a : Img α) : Img α :=
  ⟨rm.size, cm.size, fun i j =>
    match rm.src i, cm.src j with
    | some r, some c => a.px r c
    | _, _ => 0⟩

/-- `set_center(data, origin=(o0, o1), crop, axes)` on the whole-pixel path.
    `o0`/`o1` = `none` models a `None` component or an axis not in `axes`. -/
def setCenter (crop : Crop) (a : Img α) (o0 o1 : Option Int) : Img α :=
  let rm := match o0 with
    | some o => centerAxis crop a.rows (wrapOrigin a.rows o)
    | none => AxisMap.id a.rows
  let cm := match o1 with
    | some o => centerAxis crop a.cols (wrapOrigin a.cols o)
    | none => AxisMap.id a.cols
  applyMaps rm cm a
end

/-- `center_image` trimming before centring: returns (row0, rows', col0, cols'), the slice kept.
    As coded after the F2 repair (`IM[:, xs:xs+rows]`). -/
def centerImageTrim (rows cols : Nat) (oddSize square : Bool) : Nat × Nat × Nat × Nat :=
  let cols1 := if oddSize && cols % 2 == 0 then cols - 1 else cols
  if square && rows != cols1 then
    if rows > cols1 then
      let diff := rows - cols1
      let trim := diff / 2
      -- IM[trim:-trim] then one more row off the end if diff is odd
      (trim, rows - 2 * trim - diff % 2, 0, cols1)
    else
      let rows1 := if oddSize && rows % 2 == 0 then rows - 1 else rows
      let xs := (cols1 - rows1) / 2
      (0, rows1, xs, rows1)
  else (0, rows, 0, cols1)

/-! `center_image` with an explicit whole-pixel origin, as coded after the repairs F36 / F38 / F58: trim, convert the origin (given in the
coordinates of the *input* image, negative = from the end) to the trimmed frame or refuse it, centre, square again -/

/-- one coordinate of the explicit origin in the trimmed frame; `none` = refused (the point lies in what the trimming removes) -/
def explicitOrigin (n trimmed size' : Nat) (o : Int) : Option Int :=
  let o2 := wrapOrigin n o - trimmed
  if o2 < 0 ∨ o2 > (size' : Int) - 1 then none else some o2

/-- the part `[start, start + len)` of an axis map -/
def AxisMap.slice (m : AxisMap) (start len : Nat) : AxisMap := ⟨len, fun i => if i < len then m.src (start + i) else none⟩

/-- source indices of the trimmed frame expressed in the input frame -/
def AxisMap.shiftSrc (m : AxisMap) (k : Nat) : AxisMap := ⟨m.size, fun i => (m.src i).map (· + k)⟩

/-- row and column maps (output index → input index) of `center_image(IM, method=(o0, o1), odd_size, square, crop)` -/
def centerImageExplicit (crop : Crop) (rows cols : Nat) (oddSize square : Bool) (o0 o1 : Int) : Option (AxisMap × AxisMap) :=
  let t := centerImageTrim rows cols oddSize square
  match explicitOrigin rows t.1 t.2.1 o0, explicitOrigin cols t.2.2.1 t.2.2.2 o1 with
  | some a, some b =>
    let rm := centerAxis crop t.2.1 a
    let cm := centerAxis crop t.2.2.2 b
    if square && rm.size != cm.size then
      let size0 := min rm.size cm.size
      let size := if oddSize && size0 % 2 == 0 then size0 - 1 else size0
      some ((rm.slice (rm.size / 2 - size / 2) size).shiftSrc t.1, (cm.slice (cm.size / 2 - size / 2) size).shiftSrc t.2.2.1)
    else some (rm.shiftSrc t.1, cm.shiftSrc t.2.2.1)
  | _, _ => none

/-! sub-pixel part of a centring shift with `order=1` (linear interpolation of the zero-padded data) -/
section
variable {α : Type} [Add α] [Sub α] [Mul α] [OfNat α 1]

/-- `scipy.ndimage.shift(np.pad(x, 1), k + f, order=1)[1:-1]` for `0 ≤ f < 1`: `out[i] = (1 − f)·x[i − k] + f·x[i − k − 1]`,
    `x` extended by zero outside the frame -/
def shiftLin (k : Int) (f : α) (x : Int → α) : Int → α := fun i => (1 - f) * x (i - k) + f * x (i - k - 1)

end

end PyAbel
