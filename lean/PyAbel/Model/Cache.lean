/-
Two-tier basis cache (memory slot + basis directory) as a state machine, generic in the
module-specific matching rules.  Array contents are abstract descriptors:
`⟨gen, view⟩` = "the basis generated for parameters `gen`, cropped/sliced for request `view`".

Instances (bottom of the file) follow, after the repairs made in /repo (DESIGN.md §4):
  abel/dasch.py     get_bs_cached   (method, cols)
  abel/daun.py      get_bs_cached   (n, degree)               — `_bs` level
  abel/basex.py     get_bs_cached   (n, sigma)                — `_bs` level
  abel/linbasex.py  get_bs_cached   (cols, orders, angles, radial_step, clip)
  abel/rbasex.py    get_bs_cached   (Rmax, order, odd)        — `_bs` level
-/
namespace PyAbel.Cache

structure Desc (K : Type) where
  gen  : K
  view : K
  deriving DecidableEq, Repr

/-- state of a basis file as `np.load` sees it -/
inductive FileState | valid | corruptValueError | corruptOther
  deriving DecidableEq, Repr

/-- what happens when the chosen file cannot be loaded -/
inductive OnLoadError | regenerate | raise
  deriving DecidableEq, Repr

/-- module-specific rules -/
structure Rules (K : Type) where
  /-- the memory slot filled for key `k` serves request `r` -/
  memHit   : K → K → Bool
  /-- a file written for `k` may serve request `r` (possibly after cropping) -/
  diskHit  : K → K → Bool
  /-- `a` is preferred to `b` among usable files (smallest sufficient) -/
  better   : K → K → Bool
  /-- key recorded in memory after loading file `k` for request `r` -/
  memKeyAfterLoad : K → K → K
  /-- reaction to `ValueError` from np.load (every module lets other exceptions propagate) -/
  onValueError : OnLoadError
  /-- the memory slot is invalidated before loading, so an exception leaves it empty (rbasex) -/
  invalidateOnRaise : Bool := false
  /-- mathematical fact the module relies on: basis generated for `g`, cropped for `r`, equals the
      basis generated for `r` -/
  sound    : K → K → Bool

structure State (K : Type) where
  mem  : Option (K × Desc K)         -- (key it is filed under, content)
  disk : List (K × FileState)        -- basis directory (at most one entry per key)
  deriving Repr

inductive Outcome (K : Type)
  | ok (d : Desc K) (source : Nat)   -- source: 0 memory, 1 file, 2 generated
  | raised
  deriving Repr, DecidableEq

variable {K : Type} [DecidableEq K]

def State.init : State K := ⟨none, []⟩

/-- best usable file for request `r` (first of the best in directory order) -/
def bestFile (R : Rules K) (r : K) (disk : List (K × FileState)) : Option (K × FileState) :=
  disk.foldl (fun acc f =>
    if R.diskHit f.1 r then
      match acc with
      | none => some f
      | some b => if R.better f.1 b.1 then some f else acc
    else acc) none

def setFile (disk : List (K × FileState)) (k : K) (s : FileState) : List (K × FileState) :=
  (disk.filter fun f => f.1 ≠ k) ++ [(k, s)]

/-- generate for `r`, cache in memory, save to the directory if one is used -/
def generate (s : State K) (r : K) (useDir : Bool) : State K × Outcome K :=
  let d : Desc K := ⟨r, r⟩
  (⟨some (r, d), if useDir then setFile s.disk r .valid else s.disk⟩, .ok d 2)

/-- one `get_bs_cached` call for request `r` (with or without a basis directory) -/
def call (R : Rules K) (s : State K) (r : K) (useDir : Bool) : State K × Outcome K :=
  match s.mem with
  | some (k, d) =>
    if R.memHit k r then (s, .ok ⟨d.gen, r⟩ 0) else miss
  | none => miss
where
  failed : State K := if R.invalidateOnRaise then ⟨none, s.disk⟩ else s
  miss : State K × Outcome K :=
    if useDir then
      match bestFile R r s.disk with
      | some (k, .valid) =>
        let d : Desc K := ⟨k, R.memKeyAfterLoad k r⟩
        (⟨some (R.memKeyAfterLoad k r, d), s.disk⟩, .ok ⟨k, r⟩ 1)
      | some (_, .corruptValueError) =>
        match R.onValueError with
        | .regenerate => generate s r useDir
        | .raise => (failed, .raised)
      | some (_, .corruptOther) => (failed, .raised)
      | none => generate s r useDir
    else generate s r useDir

inductive Op (K : Type)
  | call (r : K) (useDir : Bool)
  | cacheCleanup                       -- module.cache_cleanup()
  | dirCleanup                         -- basis_dir_cleanup for this module
  | damage (k : K) (st : FileState)    -- fault: the file for `k` becomes unreadable (or is restored)
  | remove (k : K)                     -- fault / user: the file is deleted
  | publish (k : K)                    -- another process saved (atomically) the basis it generated for `k`
  deriving Repr

def step (R : Rules K) (s : State K) : Op K → State K × Option (Outcome K)
  | .call r useDir => let (s', o) := call R s r useDir; (s', some o)
  | .cacheCleanup => (⟨none, s.disk⟩, none)
  | .dirCleanup => (⟨s.mem, []⟩, none)
  | .damage k st => (⟨s.mem, if s.disk.any (·.1 = k) then setFile s.disk k st else s.disk⟩, none)
  | .remove k => (⟨s.mem, s.disk.filter fun f => f.1 ≠ k⟩, none)
  | .publish k => (⟨s.mem, setFile s.disk k .valid⟩, none)

def run (R : Rules K) (s : State K) : List (Op K) → State K
  | [] => s
  | op :: ops => run R (step R s op).1 ops

end PyAbel.Cache

/-! ## Instances: the five caching modules -/
namespace PyAbel.Cache

inductive DaschMethod | two_point | three_point | onion_peeling
  deriving DecidableEq, Repr

structure DaschKey where
  method : DaschMethod
  cols   : Nat
  deriving DecidableEq, Repr

/-- abel/dasch.py: memory serves any request of the same method that is not larger; any file of the
    same method that is not smaller is loaded and cropped; `np.load` is unguarded. -/
def daschRules : Rules DaschKey where
  memHit k r := k.method = r.method && r.cols ≤ k.cols
  diskHit k r := k.method = r.method && r.cols ≤ k.cols
  better _ _ := false                         -- first usable file in directory order
  memKeyAfterLoad _ r := r                    -- `_D = np.load(bf)[:cols, :cols]`
  onValueError := .raise
  sound g r := g.method = r.method && r.cols ≤ g.cols

structure DaunKey where
  n      : Nat
  degree : Nat
  deriving DecidableEq, Repr

/-- abel/daun.py (`_bs` level): degree 3 needs the exact size, lower degrees any sufficient size. -/
def daunRules : Rules DaunKey where
  memHit k r := k.degree = r.degree && (if r.degree = 3 then k.n = r.n else r.n ≤ k.n)
  diskHit k r := k.degree = r.degree && (if r.degree = 3 then k.n = r.n else r.n ≤ k.n)
  better a b := a.n < b.n
  memKeyAfterLoad _ r := r
  onValueError := .regenerate
  sound g r := g.degree = r.degree && (if r.degree = 3 then g.n = r.n else r.n ≤ g.n)

structure BasexKey where
  n     : Nat
  sigma : Nat          -- σ as an opaque label (compared for equality only)
  deriving DecidableEq, Repr

/-- abel/basex.py (`_bs` level): memory needs the exact (n, σ); files of the same σ and sufficient n
    are cropped. -/
def basexRules : Rules BasexKey where
  memHit k r := k = r
  diskHit k r := k.sigma = r.sigma && r.n ≤ k.n
  better a b := a.n < b.n
  memKeyAfterLoad _ r := r
  onValueError := .regenerate
  sound g r := g.sigma = r.sigma && r.n ≤ g.n

structure LinbasexKey where
  cols   : Nat
  orders : List Nat
  angles : List Nat     -- angles as opaque labels (exact values since the key repair)
  step   : Nat
  clip   : Nat
  deriving DecidableEq, Repr

/-- shape of the basis array `(proj·(2n−1), pol·(⌈n/step⌉ − clip))` with `n = cols//2 + 1` equals
    `(2·cols, cols+1)`: the extra test the memory tier applies before comparing parameters -/
def LinbasexKey.defaultShape (k : LinbasexKey) : Bool :=
  let n := k.cols / 2 + 1
  k.angles.length * (2 * n - 1) == 2 * k.cols &&
  k.orders.length * ((n + k.step - 1) / k.step - k.clip) == k.cols + 1

/-- abel/linbasex.py: exact match everywhere (memory only for default-shaped bases); `np.load` is unguarded. -/
def linbasexRules : Rules LinbasexKey where
  memHit k r := k = r && k.defaultShape
  diskHit k r := k = r
  better _ _ := false
  memKeyAfterLoad _ r := r
  onValueError := .raise
  sound g r := g = r

structure RbasexKey where
  rmax  : Nat
  order : Nat
  odd   : Bool
  inv   : Bool          -- file also holds the inverse matrices (request: inverse without regularisation)
  deriving DecidableEq, Repr

def RbasexKey.size (f r : RbasexKey) : Nat :=
  let s := f.rmax ^ 2 * f.order / (if f.odd then 1 else 2)
  if r.inv && !f.inv then s * r.rmax else s

/-- abel/rbasex.py (`_bs` level): memory needs the exact (Rmax, order, odd); files with larger Rmax,
    higher order or additional odd orders are cropped / thinned. -/
def rbasexRules : Rules RbasexKey where
  memHit k r := k.rmax = r.rmax && k.order = r.order && k.odd = r.odd
  diskHit k r := r.rmax ≤ k.rmax && r.order ≤ k.order && (!r.odd || k.odd)
  better a b := a.rmax ^ 2 * a.order ≤ b.rmax ^ 2 * b.order
  memKeyAfterLoad _ r := r
  onValueError := .regenerate
  invalidateOnRaise := true
  sound g r := r.rmax ≤ g.rmax && r.order ≤ g.order && (!r.odd || g.odd)

end PyAbel.Cache
