/-
Effect analysis for C18: which functions may modify an object passed to them.

`Unit`s (one per function; the methods of a class form one unit) are generated from /repo by
harness/gen_effects.py.  The analysis is flow-insensitive:
  * `labels` — a partition of the unit's variables such that variables that may share memory carry the same label
    (computed by propagation, then *checked* against every sharing edge: `consistent`);
  * a parameter is possibly written if some `write v`, or some call passing `v` to a callee parameter that the callee
    may write, has `v` in the parameter's class.
Inter-procedural facts (which callee parameters are written / returned) come from `Summary`s computed by iterating
the per-unit analysis to a fixed point over all units.
-/
namespace PyAbel.Effects

inductive Stmt
  | share (d s : Nat)
  | write (v : Nat)
  | call (callee param : Nat) (v : Nat)                 -- `v` is passed as parameter `param` of unit number `callee`
  | callret (d : Nat) (callee param : Nat) (v : Nat)    -- `d` receives the result of that call
  deriving Repr, DecidableEq

structure Unit where
  qual    : String
  name    : String
  params  : List String
  nvars   : Nat
  globals : List Nat
  ret     : Option Nat
  stmts   : List Stmt
  isPublic : Bool := true          -- name does not start with an underscore
  deriving Repr

/-- what is known about a callee: indices of parameters it may write / may return (an alias of) -/
structure Summary where
  name    : String
  params  : List String
  writes  : List Nat
  returns : List Nat
  deriving Repr, DecidableEq

/-- callee summaries are looked up by unit number; names and keyword arguments are resolved by the generator -/
def calleeWrites (ss : List Summary) (callee param : Nat) : Bool :=
  match ss[callee]? with
  | none => false
  | some s => s.writes.contains param

def calleeReturns (ss : List Summary) (callee param : Nat) : Bool :=
  match ss[callee]? with
  | none => false
  | some s => s.returns.contains param

/-- sharing edges of a unit under the callee summaries -/
def edges (ss : List Summary) (u : Unit) : List (Nat × Nat) :=
  u.stmts.filterMap fun
    | .share d s => some (d, s)
    | .callret d g k v => if calleeReturns ss g k then some (d, v) else none
    | _ => none

/-- variables that may be modified in place (directly, or by a callee) -/
def writtenVars (ss : List Summary) (u : Unit) : List Nat :=
  u.stmts.filterMap fun
    | .write v => some v
    | .call g k v => if calleeWrites ss g k then some v else none
    | _ => none

/-- the check that makes a points-to table trustworthy however it was obtained:
    every root (parameter / module global) points to itself, and along every sharing edge `d := s` the destination
    may denote everything the source may denote -/
def consistent (roots : List Nat) (es : List (Nat × Nat)) (pts : Nat → List Nat) : Bool :=
  roots.all (fun r => (pts r).contains r) &&
  es.all fun e => (pts e.2).all ((pts e.1).contains ·)

/-- variables that some statement (re)binds -/
def dests (u : Unit) : List Nat :=
  u.stmts.filterMap fun
    | .share d _ => some d
    | .callret d _ _ _ => some d
    | _ => none

/-- no statement rebinds a root variable (roots are only ever sources; rebinding creates a new version) -/
def rootsFixed (roots : List Nat) (ds : List Nat) : Bool :=
  ds.all fun d => !roots.contains d

/-- certificate for one unit, produced by the (untrusted) generator: for every variable the roots (parameters and
    module globals, as variable numbers) whose object it may denote or be a view of; and the unit's summary -/
structure Cert where
  pts     : List (List Nat)
  summary : Summary
  deriving Repr

def Cert.pt (c : Cert) (v : Nat) : List Nat := c.pts.getD v []

def Unit.roots (u : Unit) : List Nat := List.range u.params.length ++ u.globals

/-- parameters that some possibly written variable may denote -/
def computedWrites (ss : List Summary) (u : Unit) (pts : Nat → List Nat) : List Nat :=
  let w := (writtenVars ss u).flatMap pts
  (List.range u.params.length).filter (w.contains ·)

def computedReturns (u : Unit) (pts : Nat → List Nat) : List Nat :=
  match u.ret with
  | none => []
  | some r => (List.range u.params.length).filter ((pts r).contains ·)

/-- the kernel-checked condition: the certificate is a post-fixed point of the analysis -/
def checkUnit (ss : List Summary) (u : Unit) (c : Cert) : Bool :=
  c.summary.params.length == u.params.length &&
  consistent u.roots (edges ss u) c.pt && rootsFixed u.roots (dests u) &&
  u.roots.all (· < u.nvars) &&
  (computedWrites ss u c.pt).all (c.summary.writes.contains ·) &&
  (computedReturns u c.pt).all (c.summary.returns.contains ·)

def checkAll (us : List Unit) (cs : List Cert) : Bool :=
  let ss := cs.map (·.summary)
  us.length == cs.length && (us.zip cs).all fun uc => checkUnit ss uc.1 uc.2

/-- does the returned object possibly share memory with a module-level cache? -/
def returnsCache (u : Unit) (c : Cert) : Bool :=
  match u.ret with
  | none => false
  | some r => u.globals.any ((c.pt r).contains ·)

end PyAbel.Effects
