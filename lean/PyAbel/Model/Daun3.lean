/-
Model of the projected basis set of abel/daun.py for degree 3 (`_bs_daun(n, degree=3)`): the projections `p(j)` of the
cubic Hermite value functions, the projections `q(j)` of the derivative functions, the tridiagonal system for the smooth
(clamped) derivatives and the final coefficient matrix.  Entries are written as coded.
-/
import PyAbel.Model.Dasch
namespace PyAbel

section
variable {α : Type} [Zero α] [Add α] [Sub α] [Mul α] [Div α] [NatCast α] [IntCast α] [HasSqrt α] [HasLog α]

/-- `P(R, a, b, c, d)[i]` of degree 3, for `i < R`: the antiderivative of `(a + b r + c r² + d r³)·2r/√(r² − x²)` at `r = R` -/
def daun3P (R : Nat) (a b c d : Int) (i : Nat) : α :=
  let Rr : α := ((R : Nat) : α)
  let x2 : α := ((i ^ 2 : Nat) : α)
  let y : α := sqrt (((R ^ 2 : Nat) : α) - x2)
  let ca : α := ((a : Int) : α); let cb : α := ((b : Int) : α); let cc : α := ((c : Int) : α); let cd : α := ((d : Int) : α)
  y * (ca * ((2 : Nat) : α) + (cb + (cc * ((2 : Nat) : α) / ((3 : Nat) : α) + cd * Rr / ((2 : Nat) : α)) * Rr) * Rr
        + (cd * ((3 : Nat) : α) / ((4 : Nat) : α) * Rr + cc * ((4 : Nat) : α) / ((3 : Nat) : α)) * x2)
    + (cb + cd * ((3 : Nat) : α) / ((4 : Nat) : α) * x2) * x2 * log (y + Rr)

/-- `p(j)[i]`: projection of the value function of node `j` (cubic Hermite, 1 at `j`, 0 at `j ± 1`, flat at all three) -/
def daun3p (j i : Nat) : α :=
  let J : Int := j
  let x2 : α := ((i ^ 2 : Nat) : α)
  (if i ≤ j then daun3P (j + 1) (-(J ^ 2) * (2 * J + 3) + 1) (6 * J * (J + 1)) (-3 * (2 * J + 1)) 2 i else 0)
  + (if i < j then daun3P j (4 * J ^ 3) (-12 * J ^ 2) (12 * J) (-4) i else 0)
  - (if i = j then (((6 * j * (j + 1) : Nat) : α) + ((3 : Nat) : α) / ((2 : Nat) : α) * x2) * x2logx j else 0)
  - (if 0 < j ∧ i + 1 < j then daun3P (j - 1) (J ^ 2 * (2 * J - 3) + 1) (-6 * J * (J - 1)) (3 * (2 * J - 1)) (-2) i else 0)
  + (if 0 < j ∧ i + 1 = j then ((6 : Nat) : α) * (((j * (j - 1) : Nat) : α) + x2 / ((4 : Nat) : α)) * x2logx (j - 1) else 0)

/-- `q(j)[i]`: projection of the derivative function of node `j` (0 at all three nodes, unit slope at `j`, flat at `j ± 1`) -/
def daun3q (j i : Nat) : α :=
  let J : Int := j
  let x2 : α := ((i ^ 2 : Nat) : α)
  (if i ≤ j then daun3P (j + 1) (-J * (J * (J + 2) + 1)) (J * (3 * J + 4) + 1) (-3 * J - 2) 1 i else 0)
  + (if i < j then daun3P j (4 * J ^ 2) (-8 * J) 4 0 i else 0)
  - (if i = j then (((j * (3 * j + 4) + 1 : Nat) : α) + ((3 : Nat) : α) / ((4 : Nat) : α) * x2) * x2logx j else 0)
  - (if 0 < j ∧ i + 1 < j then daun3P (j - 1) (-J * (J * (J - 2) + 1)) (J * (3 * J - 4) + 1) (-3 * J + 2) 1 i else 0)
  - (if 0 < j ∧ i + 1 = j then ((((j : Int) * (3 * j - 4) + 1 : Int) : α) + ((3 : Nat) : α) / ((4 : Nat) : α) * x2) * x2logx (j - 1) else 0)

/-! the tridiagonal system `d_{k−1} + 4 d_k + d_{k+1} = rhs_k` on the interior nodes `k = 1 … n−2`, with `d_0 = d_{n−1} = 0`
    (what `solve_banded` is given, after the `[1:-1]` slice): Thomas algorithm on `m = n − 2` unknowns -/

/-- forward sweep: modified super-diagonal `c'_k` (`k` = 0-based interior index) -/
def thomasC : Nat → α
  | 0 => ((1 : Nat) : α) / ((4 : Nat) : α)
  | k + 1 => ((1 : Nat) : α) / (((4 : Nat) : α) - thomasC k)

/-- forward sweep: modified right-hand side -/
def thomasD (rhs : Nat → α) : Nat → α
  | 0 => rhs 0 / ((4 : Nat) : α)
  | k + 1 => (rhs (k + 1) - thomasD rhs k) / (((4 : Nat) : α) - thomasC (α := α) k)

/-- back substitution: solution component `k` of the `m`-unknown system (`fuel = m − 1 − k` steps from the end) -/
def thomasX (m : Nat) (rhs : Nat → α) : Nat → Nat → α
  | 0, k => thomasD rhs k                                                     -- k = m − 1
  | fuel + 1, k => thomasD rhs k - thomasC (α := α) k * thomasX m rhs fuel (k + 1)

/-- the solved block `C = solve_banded(…, 3B)[1:-1, 1:-1]`: row `m` (node `m + 1`), column `i` (pixel `i + 1`) -/
def daun3C (n : Nat) (m i : Nat) : α :=
  thomasX (n - 2) (fun k => ((3 : Nat) : α) * daun3q (k + 1) (i + 1)) (n - 3 - m) m

/-- final coefficient matrix `A[j, i]` of `_bs_daun(n, 3)` -/
def daun3 (n : Nat) (j i : Nat) : α :=
  daun3p j i
  + (if 2 ≤ j ∧ 1 ≤ i ∧ i + 1 < n then daun3C n (j - 2) (i - 1) else 0)
  - (if j + 2 < n ∧ 1 ≤ i ∧ i + 1 < n then daun3C n j (i - 1) else 0)

end
end PyAbel
