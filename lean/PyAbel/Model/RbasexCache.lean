/-
Model of the in-memory caches of `abel.rbasex.get_bs_cached` (the module globals `_bs_prm`, `_bs`, `_valid_key`, `_trf`,
`_tri_full`, `_tri_prm`, `_tri`) as a state machine.  Matrices are represented by *tags* saying what they were computed from:
the basis key `K = (Rmax, order, odd)`, the key of the mask of valid radii `V` (`None` or the bytes of the inverted mask) and
the regularisation `R`.  The disk (`_load_bs` / `_save_bs`) is outside this machine (C07/C08 model it): a load or a computation
both deliver "the basis for `k`".

`ok k r` says whether the regularisation request `r` can be honoured for basis `k` (wrong format, unknown name, SVD factor > 1,
`'pos'` with odd orders > 1 raise `ValueError` in the code); `noreg r` says that `r` asks for no regularisation: `None`, or — since repair F61 —
zero strength of a parameterised regulariser (those requests build and use the unmasked inverse matrices `_tri_full`).
-/
namespace PyAbel.RbxCache

variable {K V R : Type} [DecidableEq K] [DecidableEq V] [DecidableEq R]

/-- the module globals; `none` = Python `None` -/
structure St (K V R : Type) where
  bsPrm : Option K            -- `_bs_prm` (and `_bs`): the basis in memory
  validKey : V                -- `_valid_key`
  trf : Option (K × V)        -- `_trf`: forward matrices, tagged with what they were made from
  triFull : Option K          -- `_tri_full`: unmasked inverse matrices
  triPrm : Option R           -- `_tri_prm`: `[reg]` of the matrices in `_tri`
  tri : Option (K × V × R)    -- `_tri`

/-- `cache_cleanup()` / a fresh process; `v0` is the key of "all radii valid" (`None`) -/
def St.init (v0 : V) : St K V R := ⟨none, v0, none, none, none, none⟩

structure Req (K V R : Type) where
  k : K
  v : V
  forward : Bool
  reg : R

inductive Out (K V R : Type)
  | fwd (tag : K × V)
  | inv (tag : K × V × R)
  | raise

/-- one call of `get_bs_cached`, statement by statement -/
def call (ok : K → R → Bool) (noreg : R → Bool) (s : St K V R) (q : Req K V R) : St K V R × Out K V R :=
  -- `if _bs is None or _bs_prm != prm:` load or compute the basis, reset the transforms
  let s1 : St K V R :=
    if s.bsPrm = some q.k then s
    else { s with bsPrm := some q.k,
                  -- `_load_bs` returns inverse matrices only from a file that has them; a computation returns none: either way
                  -- what is in `_tri_full` afterwards (if anything) belongs to the new basis
                  triFull := none, trf := none, triPrm := none, tri := none }
  -- `if valid_key != _valid_key:` cached transforms were made for other valid radii
  let s2 : St K V R :=
    if s1.validKey = q.v then s1
    else { s1 with trf := none, triPrm := none, tri := none, validKey := q.v }
  if q.forward then
    match s2.trf with
    | some t => (s2, .fwd t)
    | none => ({ s2 with trf := some (q.k, q.v) }, .fwd (q.k, q.v))
  else
    if s2.triPrm = some q.reg then
      match s2.tri with
      | some t => (s2, .inv t)
      | none => (s2, .raise)          -- (unreachable under the invariant: `_tri` is set whenever `_tri_prm` is)
    else
      -- `_tri_prm = None  # (invalid until the new matrices are ready)`
      let s3 : St K V R := { s2 with triPrm := none }
      if ok q.k q.reg then
        let s4 : St K V R := if noreg q.reg then { s3 with triFull := some q.k } else s3
        ({ s4 with tri := some (q.k, q.v, q.reg), triPrm := some q.reg }, .inv (q.k, q.v, q.reg))
      else (s3, .raise)

/-- `cache_cleanup(select)`: note that `_valid_key` is not reset -/
inductive Select | all | forward | inverse
deriving DecidableEq

def cleanup (s : St K V R) : Select → St K V R
  | .all => { s with bsPrm := none, trf := none, triFull := none, triPrm := none, tri := none }
  | .forward => { s with trf := none }
  | .inverse => { s with triFull := none, triPrm := none, tri := none }

/-- a session: calls and cleanups -/
inductive Op (K V R : Type)
  | call (q : Req K V R)
  | cleanup (sel : Select)

def step (ok : K → R → Bool) (noreg : R → Bool) (s : St K V R) : Op K V R → St K V R
  | .call q => (call ok noreg s q).1
  | .cleanup sel => cleanup s sel

def run (ok : K → R → Bool) (noreg : R → Bool) (s : St K V R) (ops : List (Op K V R)) : St K V R :=
  ops.foldl (step ok noreg) s

end PyAbel.RbxCache
