/-
Model of abel/tools/polar.py (coordinate conventions) and of the arithmetic of
abel/tools/vmi.py : radial_intensity (the four kinds) and toPES, and the coordinate map of
abel/tools/circularize.py : circularize.  Resampling (scipy map_coordinates) is outside the model:
`polarIM` is an arbitrary array here.
-/
import PyAbel.Model.Scalar
import PyAbel.Model.Dasch
namespace PyAbel

class HasAtan2 (α : Type) where atan2 : α → α → α     -- `np.arctan2(a, b)`
class HasSin (α : Type) where sin : α → α
class HasCos (α : Type) where cos : α → α
class HasAbs (α : Type) where abs : α → α
instance : HasAtan2 Float := ⟨Float.atan2⟩
instance : HasSin Float := ⟨Float.sin⟩
instance : HasCos Float := ⟨Float.cos⟩
instance : HasAbs Float := ⟨Float.abs⟩

section
variable {α : Type} [Zero α] [Add α] [Sub α] [Mul α] [Div α] [NatCast α]
  [HasSqrt α] [HasAtan2 α] [HasSin α] [HasCos α] [HasAbs α] [HasPi α]

/-- `cart2polar(x, y)`: r = √(x²+y²), θ = arctan2(x, y)  (θ = 0 is up, positive to the right) -/
def cart2polar (x y : α) : α × α := (sqrt (x * x + y * y), HasAtan2.atan2 x y)

/-- `polar2cart(r, θ)`: x = r sin θ, y = r cos θ -/
def polar2cart (r θ : α) : α × α := (r * HasSin.sin θ, r * HasCos.cos θ)

/-- `origin[a] += size` for negative origins -/
def wrapCoord (n : Nat) (o : Int) : Int := if o < 0 then o + n else o

/-- `index_coords`: pixel (row, col) ↦ (x, y) = (col − origin_col, origin_row − row), as integers -/
def indexCoords (rows cols : Nat) (oRow oCol : Int) (row col : Nat) : Int × Int :=
  ((col : Int) - wrapCoord cols oCol, wrapCoord rows oRow - (row : Int))

/-- `index_coords(data)` without an origin: the pole is the centre pixel `(rows // 2, cols // 2)` -/
def defaultPole (rows cols : Nat) : Int × Int := (((rows / 2 : Nat) : Int), ((cols / 2 : Nat) : Int))

/-- `index_coords(data, origin=None)` -/
def indexCoordsDefault (rows cols : Nat) (row col : Nat) : Int × Int :=
  indexCoords rows cols (defaultPole rows cols).1 (defaultPole rows cols).2 row col

/-- sample position (row, col) of the polar grid point (r, θ) in `reproject_image_into_polar` -/
def samplePos (oRow oCol r θ : α) : α × α :=
  let xy := polar2cart r θ
  (oRow - xy.2, xy.1 + oCol)

inductive Kind | int2D | int3D | avg2D | avg3D
  deriving DecidableEq, Repr

/-- Jacobian / normalisation factor applied to `polarIM[k, l]` for each kind -/
def kindFactor (kind : Kind) (R T : α) : α :=
  match kind with
  | .int2D => R
  | .int3D => HasPi.pi * (R * R) * HasAbs.abs (HasSin.sin T)
  | .avg2D => (1 : Nat) / (((2 : Nat) : α) * HasPi.pi)
  | .avg3D => HasAbs.abs (HasSin.sin T) / ((4 : Nat) : α)

/-- `radial_intensity(kind, …)[1][k]` given the polar image row `P k`, the radius `R k`, the `nt` angles `T l` and `dt` -/
def radialIntensity (kind : Kind) (nt : Nat) (P : Nat → Nat → α) (R : Nat → α) (T : Nat → α) (dt : α) (k : Nat) : α :=
  (sumRange nt fun l => P k l * kindFactor kind (R k) (T l)) * dt

/-- `toPES` on a radial grid, without the final sort: (E_k, PES_k);  `c` = energy_cal_factor.  The Jacobian `1/(2r)` is applied to
    every sample with `r ≠ 0` (since repair F49 by value, not by position) -/
def toPES [LT α] [DecidableRel (α := α) (· < ·)] (radial intensity : Nat → α) (c : α) (k : Nat) : α × α :=
  let e := radial k * radial k * c
  let i := if 0 < radial k ∨ radial k < 0 then intensity k / (((2 : Nat) : α) * radial k) else intensity k
  (e, i / c)

/-- the calibration factor after the optional rescaling by the repeller voltage and the zoom: `c·|Vrep|/zoom²` if `Vrep` is given
    (the zoom alone changes nothing) -/
def effCal (c : α) (vrep : Option α) (zoom : α) : α :=
  match vrep with
  | some v => c * HasAbs.abs v / (zoom * zoom)
  | none => c

/-- `toPES` with its options (before the final sort): binding energies `hν − E` if a photon energy is given, intensity per energy or per pixel -/
def toPESOpts [LT α] [DecidableRel (α := α) (· < ·)] (radial intensity : Nat → α) (c : α) (vrep : Option α) (zoom : α)
    (photon : Option α) (perEnergy : Bool) (k : Nat) : α × α :=
  let ce := effCal c vrep zoom
  let e := radial k * radial k * ce
  let i := if 0 < radial k ∨ radial k < 0 then intensity k / (((2 : Nat) : α) * radial k) else intensity k
  (match photon with | some hv => hv - e | none => e, if perEnergy then i / ce else i)

/-- coordinate map of `circularize`: where output pixel (X, Y) (relative to the centre) is sampled -/
def circularizeCoords (X Y factor corr : α) : α × α := (X * factor / corr, Y * factor / corr)

end
end PyAbel
