/-
Model of the closed-form transform pairs in abel/tools/transform_pairs.py (profiles 1, 2, 3, 5, 7: the polynomial ones with
exact rational coefficients), written the way the code writes them:  `a n r = √(n² − r²)`, the `source` expression and the
`projection` expression per branch.  (earlier: profile 4 (coefficients published as rounded decimals) and profile 6 (not a polynomial)
are measured by quadrature in the check, not modelled.
-/
import PyAbel.Model.Scalar
import PyAbel.Model.Distributions
import PyAbel.Model.Dasch
namespace PyAbel.Profiles
open PyAbel.Distr (pow)

section
variable {α : Type} [Zero α] [One α] [Add α] [Sub α] [Mul α] [Div α] [Neg α] [NatCast α] [LE α] [DecidableRel (α := α) (· ≤ ·)]
  [HasSqrt α] [HasLog α]

/-- a numeral -/
def n (k : Nat) : α := (k : α)

/-- `a(n, r) = np.sqrt(n*n - r*r)` -/
def a (m r : α) : α := sqrt (m * m - r * r)

/-- profile 1 (Cremers–Birkebak Eq. 13): source -/
def source1 (r : α) : α :=
  if r ≤ n 1 / n 4 then n 3 / n 4 + n 12 * pow r 2 - n 32 * pow r 3
  else (n 16 / n 27) * (n 1 + n 6 * r - n 15 * pow r 2 + n 8 * pow r 3)

/-- profile 1: projection -/
def proj1 (r : α) : α :=
  let r2 := pow r 2
  let a1 := a (n 1) r
  if r ≤ n 1 / n 4 then
    let a4 := a (n 1 / n 4) r
    (n 128 * a1 + a4) / n 108 + (n 283 * a4 - n 112 * a1) * r2 * n 2 / n 27
      + (n 4 * (n 1 + r2) * log ((n 1 + a1) / r) - (n 4 + n 31 * r2) * log ((n 1 / n 4 + a4) / r)) * r2 * n 8 / n 9
  else
    (a1 - n 7 * a1 * r2 + n 3 * r2 * (n 1 + r2) * log ((n 1 + a1) / r)) * n 32 / n 27

/-- profile 2 (Eq. 11) -/
def source2 (r : α) : α := n 1 - n 3 * r * r + n 2 * pow r 3

def proj2 (r : α) : α :=
  let a1 := a (n 1) r
  a1 * (n 1 - pow r 2 * n 5 / n 2) + pow r 4 * log ((n 1 + a1) / r) * n 3 / n 2

/-- profile 3 (Eq. 12) -/
def source3 (r : α) : α :=
  if r ≤ n 1 / n 2 then n 1 - n 2 * pow r 2 else n 2 * pow (n 1 - r) 2

def proj3 (r : α) : α :=
  let a1 := a (n 1) r
  if r ≤ n 1 / n 2 then
    let a5 := a (n 1 / n 2) r
    (n 4 / n 3) * a1 * (n 1 + n 2 * pow r 2) - (n 2 / n 3) * a5 * (n 1 + n 8 * pow r 2)
      - n 4 * pow r 2 * log ((n 1 + a1) / (n 1 / n 2 + a5))
  else
    (n 4 / n 3) * a1 * (n 1 + n 2 * pow r 2) - n 4 * pow r 2 * log ((n 1 + a1) / r)

/-- profile 4 (Alvarez, Rodero, Quintero Eq. 10; decimal coefficients as published / as coded) -/
def source4 [OfScientific α] (r : α) : α :=
  if r ≤ (0.7 : α) then (0.1 : α) + (5.51 : α) * pow r 2 - (5.25 : α) * pow r 3
  else -(40.74 : α) + (155.56 : α) * r - (188.89 : α) * pow r 2 + (74.07 : α) * pow r 3

def proj4 [OfScientific α] (r : α) : α :=
  let c0 : α := (377.78 : α) / n 3 - (111.115 : α)
  let c2 : α := (755.56 : α) / n 3 - (55.5525 : α)
  let a1 := a (n 1) r
  if r ≤ (0.7 : α) then
    let a7 := a (0.7 : α) r
    (22.68862 : α) * a7 - c0 * a1 + ((217.557 : α) * a7 - c2 * a1) * pow r 2
      + (155.56 : α) * pow r 2 * log ((n 1 + a1) / ((0.7 : α) + a7))
      + pow r 4 * ((55.5525 : α) * log ((n 1 + a1) / r) - (59.49 : α) * log (((0.7 : α) + a7) / r))
  else
    -c0 * a1 - c2 * a1 * pow r 2 + pow r 2 * ((155.56 : α) + (55.5525 : α) * pow r 2) * log ((n 1 + a1) / r)

/-- profile 6 (Buie et al., Table 1, № 7), as coded: `exp(1.1**2*(1 - 1/(1 - r**2)))/sqrt(1 - r**2)**3` -/
def source6 [OfScientific α] [HasExp α] (r : α) : α :=
  exp (pow (1.1 : α) 2 * (n 1 - n 1 / (n 1 - pow r 2))) / pow (sqrt (n 1 - pow r 2)) 3

/-- … and `exp(1.1**2*(1 - 1/(1 - r**2)))*sqrt(pi)/1.1/a(1, r)` -/
def proj6 [OfScientific α] [HasExp α] [HasPi α] (r : α) : α :=
  exp (pow (1.1 : α) 2 * (n 1 - n 1 / (n 1 - pow r 2))) * sqrt HasPi.pi / (1.1 : α) / a (n 1) r

/-- profile 5: the unit disc -/
def source5 (_ : α) : α := n 1
def proj5 (r : α) : α := n 2 * a (n 1) r

/-- profile 7 -/
def source7 (r : α) : α := (n 1 + n 10 * pow r 2 - n 23 * pow r 4 + n 12 * pow r 6) / n 2
def proj7 (r : α) : α := a (n 1) r * (n 19 + n 34 * pow r 2 - n 125 * pow r 4 + n 72 * pow r 6) * n 8 / n 105

/-- dispatch used by the driver -/
def pair [OfScientific α] [HasExp α] [HasPi α] (k : Nat) (r : α) : Option (α × α) :=
  match k with
  | 1 => some (source1 r, proj1 r)
  | 2 => some (source2 r, proj2 r)
  | 3 => some (source3 r, proj3 r)
  | 4 => some (source4 r, proj4 r)
  | 6 => some (source6 r, proj6 r)
  | 5 => some (source5 r, proj5 r)
  | 7 => some (source7 r, proj7 r)
  | _ => none

end
end PyAbel.Profiles
