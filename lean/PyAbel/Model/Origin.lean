/-
Model of abel/tools/center.py origin finders that are pure arithmetic:
  find_origin_by_center_of_mass   (scipy.ndimage.center_of_mass: Σ i·w / Σ w per axis)
  find_origin_by_convolution      (first argmax of the autoconvolution of the axis projection, halved)
  find_origin_by_center_of_image
-/
import PyAbel.Model.Scalar
import PyAbel.Model.Img
namespace PyAbel

section
variable {α : Type} [Zero α] [Add α] [Mul α] [Div α] [NatCast α]

/-- projection of the image onto axis 0 (sum over columns) / axis 1 (sum over rows) -/
def projRows (im : Img α) : Nat → α := fun i => sumRange im.cols fun j => im.px i j
def projCols (im : Img α) : Nat → α := fun j => sumRange im.rows fun i => im.px i j

/-- 1-D centre of mass of `w 0 … w (n-1)` -/
def com1 (n : Nat) (w : Nat → α) : α :=
  (sumRange n fun i => ((i : Nat) : α) * w i) / (sumRange n w)

/-- `np.convolve(p, p, mode='full')[k]`, `0 ≤ k ≤ 2n-2` -/
def autoconv (n : Nat) (p : Nat → α) (k : Nat) : α :=
  sumRange n fun i => if i ≤ k ∧ k - i < n then p i * p (k - i) else 0

end

/-- first index of the maximum of `f 0 … f (m-1)` (`np.argmax`) -/
def argmaxFirst {α : Type} [LT α] [DecidableRel (α := α) (· < ·)] (m : Nat) (f : Nat → α) : Nat :=
  (List.range m).foldl (fun best k => if f best < f k then k else best) 0

end PyAbel
