/-
Model of the in-memory caches of `abel.daun.get_bs_cached` (module globals `_bs`/`_bs_prm` and `_tr`/`_tr_prm`) as a state machine.
Matrices are tags saying what they were computed from.  Sizes are numbers (a cached basis of degree 0–2 serves every smaller size by
cropping; the cubic-spline basis of degree 3 serves its own size only); `R` = names of the linear regularisers, `S` = strengths, with
`zero s` saying that the strength is numerically 0.  The disk (`_load_bs` / `_save_bs`) is outside this machine (C07's two-tier machine
models it): a load or a generation both deliver "the basis of size n and this degree", and a failing save leaves the state as it was
(repair F60).
-/
namespace PyAbel.DaunCache

variable {R S : Type} [DecidableEq R] [DecidableEq S]

/-- what a cached transform matrix was computed from -/
inductive Tr (R S : Type)
  | full (size deg : Nat)                      -- `inv(_bs)` for degree 3, `_bs` itself (triangular, for `solve_triangular`) otherwise
  | reg (size deg n : Nat) (r : R) (s : S)     -- `A.T (A A.T + s L)⁻¹` with `A = _bs[:n, :n]` (and the `L2c` correction)
deriving DecidableEq

/-- the kind of regularisation requested -/
inductive Kind (R : Type)
  | none                                        -- `reg=None` (or a bare 0)
  | nonneg
  | lin (r : R)
deriving DecidableEq

structure St (R S : Type) where
  bs : Option (Nat × Nat)                       -- `_bs_prm = [size, degree]` (and `_bs`)
  tr : Option (Tr R S)                          -- `_tr`
  trPrm : Option (Nat × Kind R × Option S)      -- `_tr_prm = [size, reg_type, strength]`; strength `none` stands for the literal 0

def St.init : St R S := ⟨none, none, none⟩

structure Req (R S : Type) where
  n : Nat
  deg : Nat
  kind : Kind R
  s : S
  forward : Bool

/-- what is handed out: the basis, the unregularised transform matrix, or a regularised one — each "of the cached size, cropped to n" -/
inductive Out (R S : Type)
  | basis (size deg n : Nat)
  | full (size deg n : Nat)
  | reg (size deg n : Nat) (r : R) (s : S)
  | raise
deriving DecidableEq

def bsOK (b : Option (Nat × Nat)) (n deg : Nat) : Bool :=
  match b with
  | some (sz, d) => d == deg && (if deg = 3 then sz == n else n ≤ sz)
  | none => false

/-- one call of `get_bs_cached`, statement by statement (`zero s`: the strength is 0) -/
def call (zero : S → Bool) (st : St R S) (q : Req R S) : St R S × Out R S :=
  let s1 : St R S := if bsOK st.bs q.n q.deg then st else { bs := some (q.n, q.deg), tr := none, trPrm := none }
  match s1.bs with
  | none => (s1, .raise)                          -- (unreachable: `s1.bs` is set)
  | some (sz, dg) =>
    if q.forward || q.kind = .nonneg then (s1, .basis sz dg q.n)
    else
      -- `if reg_type is None: strength = 0`
      let isZero : Bool := match q.kind with | .none => true | _ => zero q.s
      if isZero then
        let stale : Bool := match s1.tr, s1.trPrm with
          | some _, some (_, _, str) => (match str with | none => false | some v => !zero v)
          | _, _ => true
        let s2 : St R S := if stale then { s1 with tr := some (.full sz dg), trPrm := some (sz, q.kind, none) } else s1
        match s2.tr with
        | some (.full a b) => (s2, .full a b q.n)
        | _ => (s2, .raise)                       -- (unreachable under the invariant)
      else
        match q.kind with
        | .lin r =>
          if s1.trPrm = some (q.n, .lin r, some q.s) then
            match s1.tr with
            | some (.reg a b c r' s') => (s1, .reg a b c r' s')
            | _ => (s1, .raise)                   -- (unreachable under the invariant)
          else
            ({ s1 with tr := some (.reg sz dg q.n r q.s), trPrm := some (q.n, .lin r, some q.s) }, .reg sz dg q.n r q.s)
        | _ => (s1, .raise)                       -- (unreachable: `none` is zero, `nonneg` returned above)

/-- `cache_cleanup(select)` -/
inductive Select | all | inverse
deriving DecidableEq

def cleanup (st : St R S) : Select → St R S
  | .all => St.init
  | .inverse => { st with tr := none, trPrm := none }

inductive Op (R S : Type)
  | call (q : Req R S)
  | cleanup (sel : Select)

def step (zero : S → Bool) (st : St R S) : Op R S → St R S
  | .call q => (call zero st q).1
  | .cleanup sel => cleanup st sel

def run (zero : S → Bool) (st : St R S) (ops : List (Op R S)) : St R S := ops.foldl (step zero) st

end PyAbel.DaunCache
