/-
Model of abel/tools/vmi.py : Distributions (methods 'nearest' and 'linear', up to three angular terms).

Two layers:
 * generic algebra (any scalar type): weighted moments of a pixel list, Hankel systems of size 1–3 solved by the
   explicit adjugate formulas `inv2` / `inv3` exactly as coded;
 * geometry over `Float` (origin decoding, rmax keywords, folding to a quadrant / half-plane, radial bins, cosine
   powers, weights) producing the pixel list that the algebra consumes.
-/
import PyAbel.Model.Scalar
import PyAbel.Model.Img
namespace PyAbel.Distr

/-! ### generic algebra -/
section
variable {α : Type} [Zero α] [One α] [Add α] [Sub α] [Mul α] [Div α]

def lsum (xs : List α) : α := xs.foldl (· + ·) 0

def pow (x : α) : Nat → α
  | 0 => 1
  | n + 1 => pow x n * x

/-- one folded pixel's contribution to a radial bin: `ω` = weight (Qw × bin weight), `t` = cos θ (odd) or cos² θ,
    `v` = weighted image value (Q × bin weight) -/
structure Contrib (α : Type) where
  ω : α
  t : α
  v : α

/-- `pc_k = Σ ω tᵏ` -/
def weightMoment (ps : List (Contrib α)) (k : Nat) : α := lsum (ps.map fun p => p.ω * pow p.t k)
/-- `p_n = Σ v tⁿ` -/
def dataMoment (ps : List (Contrib α)) (n : Nat) : α := lsum (ps.map fun p => p.v * pow p.t n)

variable [DecidableEq α]

/-- `inv2(p)` applied to a right-hand side: rows of C = inverse of [[p0,p1],[p1,p2]] -/
def solve2 (p0 p1 p2 : α) (b0 b1 : α) : α × α :=
  let d := p0 * p2 - p1 * p1
  if d = 0 then (if p0 = 0 then (0, 0) else (One.one / p0 * b0, 0))
  else (One.one / d * (p2 * b0 - p1 * b1), One.one / d * (p0 * b1 - p1 * b0))

/-- `inv3(p)` applied to a right-hand side -/
def solve3 (p0 p1 p2 p3 p4 : α) (b0 b1 b2 : α) : α × α × α :=
  let C00 := p2 * p4 - p3 * p3
  let C01 := p2 * p3 - p1 * p4
  let C02 := p1 * p3 - p2 * p2
  let d := p0 * C00 + p1 * C01 + p2 * C02
  if d = 0 then
    let s := solve2 p0 p1 p2 b0 b1
    (s.1, s.2, 0)
  else
    let C11 := p0 * p4 - p2 * p2
    let C12 := p1 * p2 - p0 * p3
    let C22 := p0 * p2 - p1 * p1
    (One.one / d * (C00 * b0 + C01 * b1 + C02 * b2),
     One.one / d * (C01 * b0 + C11 * b1 + C12 * b2),
     One.one / d * (C02 * b0 + C12 * b1 + C22 * b2))

/-- coefficients of one radial bin from its contributions, `N ∈ {1,2,3}` angular terms -/
def solveBin (N : Nat) (ps : List (Contrib α)) : List α :=
  let pc := weightMoment ps
  let p := dataMoment ps
  match N with
  | 1 => [if pc 0 = 0 then 0 else One.one / pc 0 * p 0]
  | 2 => let s := solve2 (pc 0) (pc 1) (pc 2) (p 0) (p 1); [s.1, s.2]
  | 3 => let s := solve3 (pc 0) (pc 1) (pc 2) (pc 3) (pc 4) (p 0) (p 1) (p 2); [s.1, s.2.1, s.2.2]
  | _ => []
end

/-! ### geometry (Float) -/

inductive RmaxSpec | hor | ver | HOR | VER | min | max | MIN | MAX | all | int (n : Nat)
  deriving Repr

structure Geometry where
  row : Nat
  col : Nat
  rmax : Nat
  odd : Bool
  qheight : Nat
  qwidth : Nat
  y0 : Nat
  deriving Repr

def isqrt (n : Nat) : Nat := (Float.sqrt n.toFloat).floor.toUInt64.toNat

/-- origin (after wrapping of negative numbers by the caller), spans, rmax, quadrant size — `_precalc` -/
def geometry (height width : Nat) (row col : Nat) (spec : RmaxSpec) (odd : Bool) : Geometry :=
  let row' := height - 1 - row
  let col' := width - 1 - col
  let ver := Nat.min row row'; let VER := Nat.max row row'
  let hor := Nat.min col col'; let HOR := Nat.max col col'
  let rmax := match spec with
    | .int n => n | .hor => hor | .ver => ver | .HOR => HOR | .VER => VER
    | .min => Nat.min hor ver | .max => Nat.max hor ver | .MIN => Nat.min HOR VER | .MAX => Nat.max HOR VER
    | .all => isqrt (HOR ^ 2 + VER ^ 2)
  if odd then ⟨row, col, rmax, odd, Nat.min row rmax + 1 + Nat.min row' rmax, Nat.min HOR rmax + 1, Nat.min row rmax⟩
  else ⟨row, col, rmax, odd, Nat.min VER rmax + 1, Nat.min HOR rmax + 1, 0⟩

/-- folded value at quadrant position (yy, xx): the sum of the image over the mirror pixels that exist.
    even: up to 4 (2 on an axis, 1 at the origin); odd: rows are only cut, columns mirrored (up to 2). -/
def foldAt (g : Geometry) (im : Img Float) (yy xx : Nat) : Float :=
  let cols : List Nat := (if g.col + xx < im.cols then [g.col + xx] else []) ++
                         (if 1 ≤ xx ∧ xx ≤ g.col then [g.col - xx] else [])
  let rows : List Nat :=
    if g.odd then (if g.row + yy ≥ g.y0 ∧ g.row + yy - g.y0 < im.rows then [g.row + yy - g.y0] else [])
    else (if g.row + yy < im.rows then [g.row + yy] else []) ++ (if 1 ≤ yy ∧ yy ≤ g.row then [g.row - yy] else [])
  -- accumulation order of the code: regions (neg,neg), (neg,pos), (pos,neg), (pos,pos)
  let rowsO := rows.reverse
  let colsO := cols.reverse
  rowsO.foldl (fun acc r => colsO.foldl (fun acc c => acc + im.px r c) acc) 0.0

structure Options where
  N : Nat              -- number of angular terms (1–3)
  linear : Bool        -- method 'linear' (else 'nearest')
  useSin : Bool

/-- contributions of every quadrant pixel to radial bin `b` -/
def binContribs (g : Geometry) (o : Options) (im w : Img Float) (hasW : Bool) (b : Nat) : List (Contrib Float) :=
  (List.range g.qheight).flatMap fun yy => (List.range g.qwidth).flatMap fun xx =>
    let x := xx.toFloat
    let y := g.y0.toFloat - yy.toFloat
    let r2 := x * x + y * y
    let r := Float.sqrt r2
    let atOrigin := xx == 0 && yy == g.y0
    let t := if atOrigin then 0.0 else if g.odd then y / r else (y * y) / r2
    let qw0 := if hasW then foldAt g w yy xx else foldAt g ⟨im.rows, im.cols, fun _ _ => 1.0⟩ yy xx
    let q0 := if hasW then foldAt g ⟨im.rows, im.cols, fun i j => w.px i j * im.px i j⟩ yy xx else foldAt g im yy xx
    let s := if o.useSin then (if atOrigin then 1.0 else x / r) else 1.0
    let qw := if o.useSin then s * qw0 else qw0
    let q := if o.useSin then s * q0 else q0
    if o.linear then
      let k := r.floor.toUInt64.toNat
      let wu := r - r.floor
      let wl := 1.0 - wu
      (if k == b && k ≤ g.rmax then [⟨wl * qw, t, wl * q⟩] else []) ++
      (if k + 1 == b && k + 1 ≤ g.rmax then [⟨wu * qw, t, wu * q⟩] else [])
    else
      let k := r.round.toUInt64.toNat
      if k == b && k ≤ g.rmax then [⟨qw, t, q⟩] else []

/-- normalised Hankel determinant of a bin (conditioning indicator: 0 = rank deficient) -/
def binCondition (N : Nat) (ps : List (Contrib Float)) : Float :=
  let pc := weightMoment ps
  if pc 0 == 0.0 then 0.0 else
  match N with
  | 1 => 1.0
  | 2 => (pc 0 * pc 2 - pc 1 * pc 1) / (pc 0 * pc 0)
  | 3 => (pc 0 * (pc 2 * pc 4 - pc 3 * pc 3) + pc 1 * (pc 2 * pc 3 - pc 1 * pc 4) + pc 2 * (pc 1 * pc 3 - pc 2 * pc 2))
           / (pc 0 * pc 0 * pc 0)
  | _ => 0.0

/-- `Distributions(...).image(IM).cos()` : list over radii of the N coefficients -/
def analyse (g : Geometry) (o : Options) (im w : Img Float) (hasW : Bool) : List (List Float) :=
  (List.range (g.rmax + 1)).map fun b => solveBin o.N (binContribs g o im w hasW b)

end PyAbel.Distr
