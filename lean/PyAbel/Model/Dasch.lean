/-
Model of abel/dasch.py operators (Dasch, Appl. Opt. 31, 1146 (1992)) and of the
projected basis sets of abel/daun.py for degrees 0–2.  Entries are written exactly as coded.
-/
import PyAbel.Model.Linalg
namespace PyAbel

class HasPi (α : Type) where pi : α
instance : HasPi Float := ⟨3.141592653589793⟩

section
variable {α : Type} [Zero α] [Add α] [Sub α] [Mul α] [Div α] [NatCast α] [IntCast α] [HasSqrt α] [HasLog α] [HasPi α]

/-- onion-peeling weight matrix `W[i,j]` (Dasch Eq. (11)); zero below the diagonal -/
def onionW (i j : Nat) : α :=
  if j < i then 0
  else if i = j then sqrt ((((2 * j + 1) ^ 2 : Nat) : α) - (((4 * i ^ 2 : Nat)) : α))
  else sqrt ((((2 * j + 1) ^ 2 : Nat) : α) - ((4 * i ^ 2 : Nat) : α))
     - sqrt ((((2 * j - 1) ^ 2 : Nat) : α) - ((4 * i ^ 2 : Nat) : α))

/-- `J(i, j)` of `_bs_two_point` (Dasch Eq. (9)), `j ≥ i` -/
def tpJ (i j : Nat) : α :=
  log ((sqrt ((((j + 1) ^ 2 : Nat) : α) - ((i ^ 2 : Nat) : α)) + ((j + 1 : Nat) : α))
       / (sqrt (((j ^ 2 : Nat) : α) - ((i ^ 2 : Nat) : α)) + ((j : Nat) : α))) / HasPi.pi

/-- two-point deconvolution operator `D[i,j]` -/
def twoPointD (i j : Nat) : α :=
  if i = 0 ∧ j = 0 then ((2 : Nat) : α) / HasPi.pi
  else if i = 0 ∧ j = 1 then tpJ 0 1 - ((2 : Nat) : α) / HasPi.pi
  else if j < i then 0
  else if i = j then tpJ i j
  else tpJ i j - tpJ i (j - 1)

/-- daun degree 0: `A[j,i] = p(j)[i]`, projection of the rectangular basis function `j` at pixel `i` -/
def daun0 (j i : Nat) : α :=
  if j < i then 0
  else
    let a : α := sqrt (((2 * j + 1 : Nat) : α) / ((2 : Nat) : α) * (((2 * j + 1 : Nat) : α) / ((2 : Nat) : α))
                       - ((i ^ 2 : Nat) : α))
    if i = j then ((2 : Nat) : α) * a
    else ((2 : Nat) : α) * (a - sqrt (((2 * j - 1 : Nat) : α) / ((2 : Nat) : α) * (((2 * j - 1 : Nat) : α) / ((2 : Nat) : α))
                       - ((i ^ 2 : Nat) : α)))

/-! three-point operator (Dasch Eqs. (5)–(7)), as coded in `_bs_three_point` -/

/-- `I0(i, j)` for j > i, `I0diag` for j = i -/
def tp3I0 (i j : Nat) : α :=
  let top : α := sqrt ((((2 * j + 1) ^ 2 : Nat) : α) - ((4 * i ^ 2 : Nat) : α)) + ((2 * j + 1 : Nat) : α)
  if i = j then log (top / ((2 * j : Nat) : α)) / (((2 : Nat) : α) * HasPi.pi)
  else log (top / (sqrt ((((2 * j - 1) ^ 2 : Nat) : α) - ((4 * i ^ 2 : Nat) : α)) + ((2 * j - 1 : Nat) : α)))
         / (((2 : Nat) : α) * HasPi.pi)

def tp3I1 (i j : Nat) : α :=
  let s1 : α := sqrt ((((2 * j + 1) ^ 2 : Nat) : α) - ((4 * i ^ 2 : Nat) : α))
  if i = j then s1 / (((2 : Nat) : α) * HasPi.pi) - ((2 * j : Nat) : α) * tp3I0 i j
  else (s1 - sqrt ((((2 * j - 1) ^ 2 : Nat) : α) - ((4 * i ^ 2 : Nat) : α))) / (((2 : Nat) : α) * HasPi.pi)
         - ((2 * j : Nat) : α) * tp3I0 i j

def threePointD (i j : Nat) : α :=
  let one_pi : α := ((1 : Nat) : α) / HasPi.pi
  if i = 0 ∧ j = 0 then tp3I0 0 1 - tp3I1 0 1 + one_pi
  else if i = 0 ∧ j = 1 then tp3I0 0 2 - tp3I1 0 2 + ((2 : Nat) : α) * tp3I1 0 1 - one_pi
  else if j + 1 < i then 0
  else if j + 1 = i then tp3I0 i (j + 1) - tp3I1 i (j + 1)                         -- j = i − 1 (diag forms, since j+1 = i)
  else if j = i then tp3I0 i (j + 1) - tp3I1 i (j + 1) + ((2 : Nat) : α) * tp3I1 i j
  else tp3I0 i (j + 1) - tp3I1 i (j + 1) + ((2 : Nat) : α) * tp3I1 i j - tp3I0 i (j - 1) - tp3I1 i (j - 1)

/-! Daun projected basis sets of degree 1 and 2 (`_bs_daun`), entry `A[j, i]` -/

/-- `x² ln x` with the value 0 at x = 0 -/
def x2logx (i : Nat) : α := if i = 0 then 0 else ((i ^ 2 : Nat) : α) * log ((i : Nat) : α)

/-- degree 1: `P(R)[i] = y R − x² ln(y + R)`, `y = √(R² − x²)`, for `i < R` -/
def daun1P (R i : Nat) : α :=
  let y : α := sqrt (((R ^ 2 : Nat) : α) - ((i ^ 2 : Nat) : α))
  y * ((R : Nat) : α) - ((i ^ 2 : Nat) : α) * log (y + ((R : Nat) : α))

def daun1 (j i : Nat) : α :=
  (if i ≤ j then daun1P (j + 1) i else 0)
  - (if i < j then ((2 : Nat) : α) * daun1P j i else 0)
  + (if i = j then x2logx j else 0)
  + (if 0 < j ∧ i + 1 < j then daun1P (j - 1) i else 0)
  - (if 0 < j ∧ i + 1 = j then x2logx (j - 1) else 0)

/-- degree 2: `P(R, a, b, c)[i]` with `R = R2/2` (half-integers allowed), for `i < R + ½` -/
def daun2P (R2 : Nat) (a b c : Int) (i : Nat) : α :=
  let R : α := ((R2 : Nat) : α) / ((2 : Nat) : α)
  let x2 : α := ((i ^ 2 : Nat) : α)
  let y : α := sqrt (R * R - x2)
  let ca : α := ((a : Int) : α); let cb : α := ((b : Int) : α); let cc : α := ((c : Int) : α)
  y * (ca * ((2 : Nat) : α) + cb * R + cc * ((4 : Nat) : α) / ((3 : Nat) : α) * (R * R / ((2 : Nat) : α) + x2))
    + cb * x2 * log (y + R)

def daun2 [IntCast α] (j i : Nat) : α :=
  let J : Int := j
  (if i ≤ j then daun2P (2 * (j + 1)) (2 * (J + 1) ^ 2) (-4 * (J + 1)) 2 i
                 - daun2P (2 * j + 1) ((2 * J + 1) ^ 2) (-4 * (2 * J + 1)) 4 i else 0)
  + (if 0 < j ∧ i < j then daun2P (2 * j - 1) ((2 * J - 1) ^ 2) (-4 * (2 * J - 1)) 4 i else 0)
  - (if 0 < j ∧ i = j then ((4 * j : Nat) : α) * x2logx j else 0)
  - (if 0 < j ∧ i + 1 < j then daun2P (2 * (j - 1)) (2 * (J - 1) ^ 2) (-4 * (J - 1)) 2 i else 0)
  + (if 0 < j ∧ i + 1 = j then ((4 * (j - 1) : Nat) : α) * x2logx (j - 1) else 0)

end
end PyAbel
