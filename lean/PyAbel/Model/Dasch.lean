/-
Model of abel/dasch.py operators (Dasch, Appl. Opt. 31, 1146 (1992)) and of the
projected basis sets of abel/daun.py for degrees 0–2.  Entries are written exactly as coded.
-/
import PyAbel.Model.Linalg
namespace PyAbel

class HasPi (α : Type) where pi : α
instance : HasPi Float := ⟨3.141592653589793⟩

section
variable {α : Type} [Zero α] [Add α] [Sub α] [Mul α] [Div α] [NatCast α] [HasSqrt α] [HasLog α] [HasPi α]

/-- onion-peeling weight matrix `W[i,j]` (Dasch Eq. (11)); zero below the diagonal -/
def onionW (i j : Nat) : α :=
  if j < i then 0
  else if i = j then sqrt ((((2 * j + 1) ^ 2 : Nat) : α) - (((4 * i ^ 2 : Nat)) : α))
  else sqrt ((((2 * j + 1) ^ 2 : Nat) : α) - ((4 * i ^ 2 : Nat) : α))
     - sqrt ((((2 * j - 1) ^ 2 : Nat) : α) - ((4 * i ^ 2 : Nat) : α))

/-- `J(i, j)` of `_bs_two_point` (Dasch Eq. (9)), `j ≥ i` -/
def tpJ (i j : Nat) : α :=
  log ((sqrt ((((j + 1) ^ 2 : Nat) : α) - ((i ^ 2 : Nat) : α)) + ((j + 1 : Nat) : α))
       / (sqrt (((j ^ 2 : Nat) : α) - ((i ^ 2 : Nat) : α)) + ((j : Nat) : α))) / HasPi.pi

/-- two-point deconvolution operator `D[i,j]` -/
def twoPointD (i j : Nat) : α :=
  if i = 0 ∧ j = 0 then ((2 : Nat) : α) / HasPi.pi
  else if i = 0 ∧ j = 1 then tpJ 0 1 - ((2 : Nat) : α) / HasPi.pi
  else if j < i then 0
  else if i = j then tpJ i j
  else tpJ i j - tpJ i (j - 1)

/-- daun degree 0: `A[j,i] = p(j)[i]`, projection of the rectangular basis function `j` at pixel `i` -/
def daun0 (j i : Nat) : α :=
  if j < i then 0
  else
    let a : α := sqrt (((2 * j + 1 : Nat) : α) / ((2 : Nat) : α) * (((2 * j + 1 : Nat) : α) / ((2 : Nat) : α))
                       - ((i ^ 2 : Nat) : α))
    if i = j then ((2 : Nat) : α) * a
    else ((2 : Nat) : α) * (a - sqrt (((2 * j - 1 : Nat) : α) / ((2 : Nat) : α) * (((2 * j - 1 : Nat) : α) / ((2 : Nat) : α))
                       - ((i ^ 2 : Nat) : α)))

end
end PyAbel
