/-
Images as index functions.  `px` is only meaningful for `i < rows`, `j < cols`;
equality of images is the extensional relation `Img.Equiv` on that range.
NumPy slicing, flips and concatenation become index arithmetic.
-/
namespace PyAbel

structure Img (α : Type) where
  rows : Nat
  cols : Nat
  px   : Nat → Nat → α

namespace Img
variable {α : Type}

/-- Same shape and same pixels inside the frame. -/
def Equiv (a b : Img α) : Prop :=
  a.rows = b.rows ∧ a.cols = b.cols ∧ ∀ i j, i < a.rows → j < a.cols → a.px i j = b.px i j

infix:50 " ≈ᵢ " => Img.Equiv

theorem Equiv.refl (a : Img α) : a ≈ᵢ a := ⟨rfl, rfl, fun _ _ _ _ => rfl⟩

theorem Equiv.symm {a b : Img α} (h : a ≈ᵢ b) : b ≈ᵢ a :=
  ⟨h.1.symm, h.2.1.symm, fun i j hi hj => (h.2.2 i j (h.1 ▸ hi) (h.2.1 ▸ hj)).symm⟩

theorem Equiv.trans {a b c : Img α} (h : a ≈ᵢ b) (g : b ≈ᵢ c) : a ≈ᵢ c :=
  ⟨h.1.trans g.1, h.2.1.trans g.2.1, fun i j hi hj =>
    (h.2.2 i j hi hj).trans (g.2.2 i j (h.1 ▸ hi) (h.2.1 ▸ hj))⟩

/-- `np.fliplr` -/
def fliplr (a : Img α) : Img α := ⟨a.rows, a.cols, fun i j => a.px i (a.cols - 1 - j)⟩
/-- `np.flipud` -/
def flipud (a : Img α) : Img α := ⟨a.rows, a.cols, fun i j => a.px (a.rows - 1 - i) j⟩
/-- `a[r0:r0+nr, c0:c0+nc]` -/
def slice (a : Img α) (r0 nr c0 nc : Nat) : Img α := ⟨nr, nc, fun i j => a.px (r0 + i) (c0 + j)⟩
/-- `np.concatenate((a, b), axis=1)` (row counts are the caller's business, as in NumPy after validation) -/
def hcat (a b : Img α) : Img α :=
  ⟨a.rows, a.cols + b.cols, fun i j => if j < a.cols then a.px i j else b.px i (j - a.cols)⟩
/-- `np.concatenate((a, b), axis=0)` -/
def vcat (a b : Img α) : Img α :=
  ⟨a.rows + b.rows, a.cols, fun i j => if i < a.rows then a.px i j else b.px (i - a.rows) j⟩
/-- pointwise map -/
def map {β : Type} (f : α → β) (a : Img α) : Img β := ⟨a.rows, a.cols, fun i j => f (a.px i j)⟩
/-- pointwise binary op (shape of the first operand) -/
def zipWith {β γ : Type} (f : α → β → γ) (a : Img α) (b : Img β) : Img γ :=
  ⟨a.rows, a.cols, fun i j => f (a.px i j) (b.px i j)⟩

/-- row-major pixel list (driver output) -/
def toList (a : Img α) : List α :=
  (List.range a.rows).flatMap fun i => (List.range a.cols).map fun j => a.px i j

/-- image backed by a row-major array (driver input); out-of-range reads give `d` -/
def ofArray (rows cols : Nat) (d : α) (xs : Array α) : Img α :=
  ⟨rows, cols, fun i j => xs.getD (i * cols + j) d⟩

/-- force evaluation into an array-backed image (keeps closures shallow in the driver) -/
def materialize (d : α) (a : Img α) : Img α := ofArray a.rows a.cols d a.toList.toArray

end Img
end PyAbel
