/-
Model of abel/tools/symmetry.py : get_image_quadrants / put_image_quadrants.

`reorient=True` throughout (the only mode `put_image_quadrants` inverts and the
only mode `abel.Transform` uses).
-/
import PyAbel.Model.Scalar
import PyAbel.Model.Img
namespace PyAbel

/-- Normalised `symmetry_axis`: `None`, `0`, `1`, and "both" (`(0,1)` or `[0,1]`). -/
inductive SymAxis | none | v | h | both
  deriving DecidableEq, Repr

def SymAxis.has0 : SymAxis → Bool | .v | .both => true | _ => false
def SymAxis.has1 : SymAxis → Bool | .h | .both => true | _ => false

/-- `use_quadrants` -/
structure Mask where
  u0 : Bool
  u1 : Bool
  u2 : Bool
  u3 : Bool
  deriving DecidableEq, Repr

def Mask.all : Mask := ⟨true, true, true, true⟩
def Mask.count (m : Mask) : Nat := m.u0.toNat + m.u1.toNat + m.u2.toNat + m.u3.toNat

/-- The validity test at the top of `get_image_quadrants` (`True` = accepted). -/
def admissible (ax : SymAxis) (m : Mask) : Bool :=
  !( (ax == .none && (!m.u0 || !m.u1 || !m.u2 || !m.u3))
   || (ax == .v && !m.u0 && !m.u1) || (ax == .v && !m.u2 && !m.u3)
   || (ax == .h && !m.u1 && !m.u2) || (ax == .h && !m.u0 && !m.u3)
   || !(m.u0 || m.u1 || m.u2 || m.u3))

structure Quads (α : Type) where
  q0 : Img α
  q1 : Img α
  q2 : Img α
  q3 : Img α

/-- `n // 2 + n % 2` -/
def halfUp (n : Nat) : Nat := n / 2 + n % 2

section
variable {α : Type}

/-- the four re-oriented quadrants, before masking and averaging -/
def rawQuadrants (im : Img α) : Quads α :=
  let n := im.rows; let m := im.cols
  let nc := halfUp n; let mc := halfUp m
  { q0 := ⟨nc, mc, fun i j => im.px i (m - mc + j)⟩                -- IM[:n_c, -m_c:]
    q1 := ⟨nc, mc, fun i j => im.px i (mc - 1 - j)⟩                -- fliplr(IM[:n_c, :m_c])
    q2 := ⟨nc, mc, fun i j => im.px (n - 1 - i) (mc - 1 - j)⟩      -- fliplr(flipud(IM[-n_c:, :m_c]))
    q3 := ⟨nc, mc, fun i j => im.px (n - 1 - i) (m - mc + j)⟩ }    -- flipud(IM[-n_c:, -m_c:])

variable [Zero α] [Add α] [Mul α] [Div α] [NatCast α]

/-- `Q * use_quadrants[k]` : NumPy multiplies by the boolean (1 or 0) -/
def maskPx (u : Bool) (x : α) : α := x * ((u.toNat : Nat) : α)

/-- `get_image_quadrants(IM, reorient=True, symmetry_axis=ax, use_quadrants=m,
    symmetrize_method='average')`, after the admissibility test. -/
def getQuadrants (im : Img α) (ax : SymAxis) (m : Mask) : Quads α :=
  let r := rawQuadrants im
  let q0 := r.q0.map (maskPx m.u0); let q1 := r.q1.map (maskPx m.u1)
  let q2 := r.q2.map (maskPx m.u2); let q3 := r.q3.map (maskPx m.u3)
  match ax with
  | .none => ⟨q0, q1, q2, q3⟩
  | .both =>
    let q : Img α := ⟨q0.rows, q0.cols, fun i j =>
      (q0.px i j + q1.px i j + q2.px i j + q3.px i j) / ((m.count : Nat) : α)⟩
    ⟨q, q, q, q⟩
  | .v =>
    let t : Img α := ⟨q0.rows, q0.cols, fun i j => (q0.px i j + q1.px i j) / ((m.u0.toNat + m.u1.toNat : Nat) : α)⟩
    let b : Img α := ⟨q0.rows, q0.cols, fun i j => (q2.px i j + q3.px i j) / ((m.u2.toNat + m.u3.toNat : Nat) : α)⟩
    ⟨t, t, b, b⟩
  | .h =>
    let l : Img α := ⟨q0.rows, q0.cols, fun i j => (q1.px i j + q2.px i j) / ((m.u1.toNat + m.u2.toNat : Nat) : α)⟩
    let r : Img α := ⟨q0.rows, q0.cols, fun i j => (q0.px i j + q3.px i j) / ((m.u0.toNat + m.u3.toNat : Nat) : α)⟩
    ⟨r, l, l, r⟩
end

section
variable {α : Type}

/-- `put_image_quadrants(Q, (rows, cols), symmetry_axis=ax)` -/
def putQuadrants (Q : Quads α) (rows cols : Nat) (ax : SymAxis) : Img α :=
  -- symmetry_axis substitutions, in the order of the code
  let q0 := Q.q0; let q1 := Q.q1; let q2 := Q.q2; let q3 := Q.q3
  let (q0, q3) := if ax.has0 then (q1, q2) else (q0, q3)
  let (q2, q3) := if ax.has1 then (q1, q0) else (q2, q3)
  -- odd rows: drop last row of Q0, Q1;  odd cols: drop first column of Q1, Q2
  let dr := rows % 2; let dc := cols % 2
  let q0 : Img α := ⟨q0.rows - dr, q0.cols, q0.px⟩
  let q1 : Img α := ⟨q1.rows - dr, q1.cols - dc, fun i j => q1.px i (j + dc)⟩
  let q2 : Img α := ⟨q2.rows, q2.cols - dc, fun i j => q2.px i (j + dc)⟩
  let top := (q1.fliplr).hcat q0
  let bottom := ((q2.fliplr).hcat q3).flipud
  top.vcat bottom

/-- `put ∘ get` with the same `symmetry_axis`: what `abel.Transform` does around the
    per-quadrant transforms (here with the identity transform). -/
def symmetrise [Zero α] [Add α] [Mul α] [Div α] [NatCast α]
    (im : Img α) (ax : SymAxis) (m : Mask) : Img α :=
  putQuadrants (getQuadrants im ax m) im.rows im.cols ax

end
end PyAbel
