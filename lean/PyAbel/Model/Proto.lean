/-
Line protocol helpers for the driver: doubles cross as 16 hex digits of their IEEE bits.
-/
namespace PyAbel.Proto

def hexDigit (c : Char) : Option Nat :=
  if '0' ≤ c ∧ c ≤ '9' then some (c.toNat - '0'.toNat)
  else if 'a' ≤ c ∧ c ≤ 'f' then some (c.toNat - 'a'.toNat + 10)
  else if 'A' ≤ c ∧ c ≤ 'F' then some (c.toNat - 'A'.toNat + 10)
  else none

def parseHex (s : String) : Option Nat :=
  if s.isEmpty then none else
  s.foldl (fun acc c => match acc, hexDigit c with
    | some a, some d => some (a * 16 + d)
    | _, _ => none) (some 0)

def parseFloat (s : String) : Option Float :=
  (parseHex s).map fun n => Float.ofBits n.toUInt64

def hexChar (n : Nat) : Char :=
  if n < 10 then Char.ofNat ('0'.toNat + n) else Char.ofNat ('a'.toNat + n - 10)

def showFloat (x : Float) : String :=
  let n := x.toBits.toNat
  String.ofList ((List.range 16).map fun k => hexChar ((n >>> (4 * (15 - k))) % 16))

def parseFloats (ts : List String) : Option (Array Float) :=
  ts.foldl (fun acc t => match acc, parseFloat t with
    | some a, some x => some (a.push x)
    | _, _ => none) (some #[])

def parseNats (ts : List String) : Option (List Nat) :=
  ts.mapM String.toNat?

def showFloats (xs : List Float) : String :=
  " ".intercalate (xs.map showFloat)

def parseBool (s : String) : Option Bool :=
  match s with | "1" => some true | "0" => some false | _ => none

end PyAbel.Proto
