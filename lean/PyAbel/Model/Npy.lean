/-
Byte-level model of the `.npy` (format 1.0) container that `np.save` / `np.load` use for basis files:

  magic "\x93NUMPY" (6) | major 1 | minor 0 | header length (u16 little endian) | header text | payload

`np.load` succeeds only if it can read the complete header and exactly `8 · ∏ shape` payload bytes
(float64, the only dtype the basis files use); trailing extra bytes are ignored.
The header text is kept abstract in the theorems (`shapeOf`); `parseShape` is the concrete,
executable reader used by the driver.
-/
namespace PyAbel.Npy

abbrev Bytes := List UInt8

def magic : Bytes := [0x93, 0x4E, 0x55, 0x4D, 0x50, 0x59, 1, 0]

def u16le (n : Nat) : Bytes := [UInt8.ofNat (n % 256), UInt8.ofNat (n / 256 % 256)]

def readU16le : Bytes → Option Nat
  | [a, b] => some (a.toNat + 256 * b.toNat)
  | _ => none

def prod : List Nat → Nat
  | [] => 1
  | x :: xs => x * prod xs

/-- `np.save`: container around a header blob and a payload -/
def encode (header payload : Bytes) : Bytes :=
  magic ++ u16le header.length ++ header ++ payload

inductive Verdict
  | ok (shape : List Nat) (payload : Bytes)
  | error
  deriving Repr, DecidableEq

/-- `np.load`, parametric in the header reader -/
def decode (shapeOf : Bytes → Option (List Nat)) (file : Bytes) : Verdict :=
  if file.take 8 ≠ magic then .error else
  match readU16le ((file.drop 8).take 2) with
  | none => .error
  | some hlen =>
    let header := (file.drop 10).take hlen
    if header.length < hlen then .error else
    match shapeOf header with
    | none => .error
    | some shape =>
      let need := 8 * prod shape
      let body := (file.drop (10 + hlen)).take need
      if body.length < need then .error else .ok shape body

/-! concrete header reader (executable; used by the driver for the correspondence with NumPy) -/

def isDigit (b : UInt8) : Bool := 48 ≤ b.toNat && b.toNat ≤ 57

/-- parse `d, d, …)` after the opening parenthesis of the shape tuple -/
def parseTuple : Bytes → Nat → Bool → List Nat → Option (List Nat)
  | [], _, _, _ => none
  | b :: rest, cur, inNum, acc =>
    if isDigit b then parseTuple rest (cur * 10 + (b.toNat - 48)) true acc
    else if b = 44 then parseTuple rest 0 false (if inNum then acc ++ [cur] else acc)      -- ','
    else if b = 32 then parseTuple rest cur inNum acc                                        -- ' '
    else if b = 41 then some (if inNum then acc ++ [cur] else acc)                           -- ')'
    else none

def shapeKey : Bytes := "'shape': (".toUTF8.toList
def descrF8 : Bytes := "'descr': '<f8'".toUTF8.toList
def cOrder : Bytes := "'fortran_order': False".toUTF8.toList

def findAfter (key : Bytes) : Bytes → Option Bytes
  | [] => if key = [] then some [] else none
  | b :: rest => if key.isPrefixOf (b :: rest) then some ((b :: rest).drop key.length) else findAfter key rest

/-- the header must describe a C-ordered little-endian float64 array, and end with a newline -/
def parseShape (h : Bytes) : Option (List Nat) :=
  if h.getLast? ≠ some 10 then none
  else if (findAfter descrF8 h).isNone || (findAfter cOrder h).isNone then none
  else (findAfter shapeKey h) >>= fun t => parseTuple t 0 false []

end PyAbel.Npy
