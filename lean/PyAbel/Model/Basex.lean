/-
Model of the BASEX basis sets of abel/basex.py (`_bs_basex`): the basis functions ρ_k (in reduced units u = r/σ) and the series for
their projections χ_k, written as coded — everything through logarithms (`gammaln`), summed over the range of l the code keeps.

`gammaln` at the integers and half-integers the code needs is the logarithm of a finite product (`lnfact`, `lnhalf`), which is what the
model computes; `scipy.special.gammaln` itself is outside the model (tied by the entrywise comparison of the matrices).
-/
import PyAbel.Model.Dasch
namespace PyAbel.Basex

section
variable {α : Type} [Zero α] [One α] [Add α] [Sub α] [Mul α] [Div α] [Neg α] [NatCast α] [HasSqrt α] [HasLog α] [HasExp α] [HasPi α]

/-- `gammaln(n + 1) = ln n!` -/
def lnfact : Nat → α
  | 0 => 0
  | n + 1 => lnfact n + log ((n + 1 : Nat) : α)

/-- `gammaln(n + 1/2)`: `ln √π + Σ_{i ≤ n} ln(i − 1/2)` -/
def lnhalf : Nat → α
  | 0 => log (sqrt HasPi.pi)
  | n + 1 => lnhalf n + log (((2 * n + 1 : Nat) : α) / ((2 : Nat) : α))

/-- `G[l] = lngamma[k2] − lngamma[l] − Dlngamma[k2 − l]`, with the two log-Gamma tables `lf n = gammaln(n + 1)`, `lh n = gammaln(n + 1/2)`
    as parameters (the theorems take `lnfact`, `lnhalf`; the driver passes the same values memoised) -/
def Gt (lf lh : Nat → α) (K l : Nat) : α := lf K - lf l - (lf (K - l) - lh (K - l))

def G (K l : Nat) : α := Gt (lnfact (α := α)) (lnhalf (α := α)) K l

/-- `ek = (1 − log(k2))·k2`, the logarithm of the prefactor `(e/k²)^{k²}` -/
def ek (K : Nat) : α := (1 - log ((K : Nat) : α)) * ((K : Nat) : α)

/-- one term of the series, `exp(ek − u² + G[l] + l·ln u²)` -/
def chiTermT (lf lh : Nat → α) (K : Nat) (u2 : α) (l : Nat) : α := exp (ek K - u2 + Gt lf lh K l + log u2 * ((l : Nat) : α))

def chiTerm (K : Nat) (u2 : α) (l : Nat) : α := chiTermT (lnfact (α := α)) (lnhalf (α := α)) K u2 l

/-- the sum over `l = minl … maxl` as coded (`np.exp(…).sum()`) -/
def chiRangeT (lf lh : Nat → α) (K : Nat) (u2 : α) (minl maxl : Nat) : α :=
  sumRange (maxl + 1 - minl) fun j => chiTermT lf lh K u2 (minl + j)

def chiRange (K : Nat) (u2 : α) (minl maxl : Nat) : α := chiRangeT (lnfact (α := α)) (lnhalf (α := α)) K u2 minl maxl

/-- the whole series, `l = 0 … k²` -/
def chiFull (K : Nat) (u2 : α) : α := chiRange K u2 0 K

/-- `M[0, k] = exp(ek + G[0])` -/
def chiAxisT (lf lh : Nat → α) (K : Nat) : α := exp (ek K + Gt lf lh K 0)

def chiAxis (K : Nat) : α := chiAxisT (lnfact (α := α)) (lnhalf (α := α)) K

/-- `Mc[i, k]` for `k ≥ 1`: `exp(ek + ln(u)·2k² − u²)`, 0 on the axis -/
def rho (K : Nat) (u : α) [DecidableEq α] : α :=
  if u = 0 then 0 else exp (ek K + log u * ((2 * K : Nat) : α) - u * u)

end

/-- the two tables up to `N`, built by the recursions of `lnfact` / `lnhalf` (memoisation for the driver) -/
def tables (N : Nat) : Array Float × Array Float := Id.run do
  let mut a : Array Float := #[lnfact (α := Float) 0]
  let mut b : Array Float := #[lnhalf (α := Float) 0]
  for n in [0:N] do
    a := a.push (a[n]! + Float.log (n + 1 : Nat).toFloat)
    b := b.push (b[n]! + Float.log ((2 * n + 1 : Nat).toFloat / (2 : Nat).toFloat))
  return (a, b)

/-- `M[i, k]/σ` for `i ≥ 1`, `k ≥ 1` as `_bs_basex` computes it in double precision, with the two shoulders: 0 beyond `u > k + 8`, and the
    summation limited to `± int(9 (u + 2))` terms around the largest one -/
def chiCode (lf lh : Nat → Float) (k : Nat) (u : Float) : Float :=
  let K := k * k
  let u2 := u * u
  if u > (k : Nat).toFloat + 8 then 0 else
  let lmax := min (u2.floor.toUInt64.toNat) K
  let delta := ((9 : Float) * (u + 2)).floor.toUInt64.toNat
  let minl := lmax - delta
  let maxl := min (lmax + delta) K
  chiRangeT lf lh K u2 minl maxl

/-- the pair `M[i, k]`, `Mc[i, k]` of `_bs_basex(n, σ)` -/
def entry (lf lh : Nat → Float) (sigma : Float) (i k : Nat) : Float × Float :=
  let u := (i : Nat).toFloat / sigma
  if k = 0 then (sigma * Float.exp (lh 0 - u * u), Float.exp (-(u * u)))
  else
    let K := k * k
    ((if i = 0 then chiAxisT lf lh K else chiCode lf lh k u) * sigma, if i = 0 then 0 else Float.exp (ek (α := Float) K + Float.log u * ((2 * K : Nat).toFloat) - u * u))

end PyAbel.Basex
