/-
Model of request validation and dispatch (abel/transform.py `_verify_some_inputs` and
`_abel_transform_image*`; direction / shape checks at the top of every transform function).
Decision logic only: what is returned is an *outcome class*.
-/
namespace PyAbel

inductive Method
  | basex | daun | direct | hansenlaw | onion_bordas | onion_peeling | two_point | three_point
  | linbasex | rbasex
  deriving DecidableEq, Repr

/-- the `direction` argument: the two documented strings, or anything else -/
inductive Dir | forward | inverse | other
  deriving DecidableEq, Repr

inductive Outcome
  | raise
  | forwardOp (m : Method)
  | inverseOp (m : Method)
  deriving DecidableEq, Repr

def Method.implementsForward : Method → Bool
  | .basex | .daun | .direct | .hansenlaw | .rbasex => true
  | _ => false

/-- the image-processing options that name a choice from a documented set -/
structure NamedOpts where
  originOK     : Bool   -- 'none', a known finder name, or a 2-tuple
  cropOK       : Bool   -- one of the three crop modes (consulted only when centring)
  symmetrizeOK : Bool   -- 'average' | 'fourier'
  regOK        : Bool   -- method's documented regularisations (daun, rbasex)
  outOK        : Bool   -- rbasex `out`
  deriving DecidableEq, Repr

structure Request where
  viaTransform : Bool          -- through abel.Transform (else the method's own function)
  method       : Option Method -- `none` = a name that is not a method
  dir          : Dir
  oneD         : Bool          -- 1-D input
  rows         : Nat
  cols         : Nat
  centring     : Bool          -- origin ≠ 'none'
  anyQuadrant  : Bool          -- np.any(use_quadrants)
  opts         : NamedOpts
  deriving Repr

/-- the method function itself (after `np.atleast_2d`), in the order of its checks.
    `cols` is the width the function receives (the quadrant width when called by Transform). -/
def methodDispatch (m : Method) (d : Dir) (rows cols : Nat) (o : NamedOpts) : Outcome :=
  match m with
  | .two_point =>
    if d ≠ .inverse then .raise else if cols < 2 then .raise else .inverseOp m
  | .three_point =>
    if d ≠ .inverse then .raise else if cols < 3 then .raise else .inverseOp m
  | .onion_peeling | .onion_bordas =>
    if d ≠ .inverse then .raise else .inverseOp m
  | .linbasex =>
    if d ≠ .inverse then .raise else if cols % 2 = 0 then .raise else if rows ≠ cols then .raise
    else .inverseOp m
  | .daun =>
    -- `reg` is parsed (and validated) before anything else, whatever the direction
    match d with
    | .other => .raise
    | .forward => if !o.regOK then .raise else .forwardOp m
    | .inverse => if !o.regOK then .raise else .inverseOp m
  | .rbasex =>
    match d with
    | .other => .raise
    | .forward => if !o.outOK then .raise else .forwardOp m        -- reg is not consulted for forward
    | .inverse => if !o.regOK then .raise else if !o.outOK then .raise else .inverseOp m
  | .basex | .direct | .hansenlaw =>
    match d with
    | .other => .raise
    | .forward => .forwardOp m
    | .inverse => .inverseOp m

def dispatch (r : Request) : Outcome :=
  if r.viaTransform then
    -- _verify_some_inputs
    if r.oneD || r.rows ≤ 2 then .raise
    else if !r.anyQuadrant then .raise
    -- _center_image
    else if r.centring && (!r.opts.originOK || !r.opts.cropOK) then .raise
    else match r.method with
      | none => .raise                                   -- KeyError on the dispatch table
      | some m =>
        if m = .linbasex ∨ m = .rbasex then methodDispatch m r.dir r.rows r.cols r.opts
        else if !r.opts.symmetrizeOK then .raise         -- get_image_quadrants
        else methodDispatch m r.dir (r.rows / 2 + r.rows % 2) (r.cols / 2 + r.cols % 2) r.opts
  else
    match r.method with
    | none => .raise
    | some m => methodDispatch m r.dir r.rows r.cols r.opts

/-- The declarative requirement: what the library documents it can honour. -/
def supported (r : Request) : Bool :=
  match r.method with
  | none => false
  | some m =>
    let w := if r.viaTransform ∧ m ≠ .linbasex ∧ m ≠ .rbasex then r.cols / 2 + r.cols % 2 else r.cols
    (r.dir = .inverse ∨ (r.dir = .forward ∧ m.implementsForward)) &&
    (!r.viaTransform || (!r.oneD && 3 ≤ r.rows && r.anyQuadrant &&
        (!r.centring || (r.opts.originOK && r.opts.cropOK)) &&
        (m = .linbasex || m = .rbasex || r.opts.symmetrizeOK))) &&
    (m ≠ .two_point || 2 ≤ w) && (m ≠ .three_point || 3 ≤ w) &&
    (m ≠ .linbasex || (r.cols % 2 = 1 && r.rows = r.cols)) &&
    (m ≠ .daun || r.opts.regOK) && (m ≠ .rbasex || r.dir = .forward || r.opts.regOK) &&
    (m ≠ .rbasex || r.opts.outOK)

end PyAbel
