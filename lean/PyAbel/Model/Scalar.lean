/-
Scalar interface shared by all numerical models.

Model code is written once over Lean's standard notation classes plus the
op-only classes below (no laws).  Instances:
  * `Float`  — here; used by the compiled driver (`Driver.lean`);
  * `ℝ`      — in `PyAbel/Lemmas/RealInst.lean` (Mathlib), used by the theorems.
-/
namespace PyAbel

class HasSqrt (α : Type) where sqrt : α → α
class HasLog  (α : Type) where log  : α → α
class HasExp  (α : Type) where exp  : α → α
class HasAcos (α : Type) where acos : α → α

export HasSqrt (sqrt)
export HasLog (log)
export HasExp (exp)
export HasAcos (acos)

instance : NatCast Float := ⟨Nat.toFloat⟩
instance : IntCast Float := ⟨Float.ofInt⟩
instance : HasSqrt Float := ⟨Float.sqrt⟩
instance : HasLog  Float := ⟨Float.log⟩
instance : HasExp  Float := ⟨Float.exp⟩
instance : HasAcos Float := ⟨Float.acos⟩

/-- Sum of `f 0 … f (n-1)`, left to right (the order NumPy's naive loops use). -/
def sumRange {α : Type} [Zero α] [Add α] (n : Nat) (f : Nat → α) : α :=
  match n with
  | 0 => 0
  | k + 1 => sumRange k f + f k

end PyAbel
