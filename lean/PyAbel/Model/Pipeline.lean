/-
Model of abel.Transform for the eight quadrant methods
(abel/transform.py : _abel_transform_image_by_quadrant):

  Q  = get_image_quadrants(IM, reorient=True, symmetry_axis, use_quadrants)
  AQ1 = T Q1;  AQ2 = T Q2 unless 1 ∈ axis;  AQ0 = T Q0 unless 0 ∈ axis;  AQ3 = T Q3 iff axis = None
  out = put_image_quadrants((AQ0, AQ1, AQ2, AQ3), IM.shape, symmetry_axis)

`T` is the method's half-image transform (any function on images).  Quadrants that the code
leaves as `None` are modelled as `T` of the corresponding quadrant: `put` never reads them
(theorem `C05.unread_quadrants`).
-/
import PyAbel.Model.Symmetry
import PyAbel.Model.Center
namespace PyAbel

section
variable {α : Type} [Zero α] [Add α] [Mul α] [Div α] [NatCast α]

def transformQuadrants (T : Img α → Img α) (im : Img α) (ax : SymAxis) (m : Mask) : Img α :=
  let Q := getQuadrants im ax m
  putQuadrants ⟨T Q.q0, T Q.q1, T Q.q2, T Q.q3⟩ im.rows im.cols ax

/-- Which (already transformed) quadrant an output pixel is read from, as `put_image_quadrants`
    decides it: `top` = above the centre row, `right` = centre column or to its right. -/
def pickQuadrant (ax : SymAxis) (A : Quads α) (top right : Bool) : Img α :=
  match top, right with
  | true,  true  => if ax.has0 then A.q1 else A.q0
  | true,  false => A.q1
  | false, false => if ax.has1 then A.q1 else A.q2
  | false, true  =>
      -- Q3 := Q2 if 0 ∈ axis;  then Q3 := Q0' if 1 ∈ axis  (Q0' = Q1 if 0 ∈ axis)
      if ax.has1 then (if ax.has0 then A.q1 else A.q0) else (if ax.has0 then A.q2 else A.q3)

/-- the stub "method" used by the C05 correspondence: row-wise, position dependent, not symmetric,
    exact on small integers:  T(Q)[i,j] = 2 Q[i,j] + Q[i,(j+1) mod cols] + (j+1) -/
def stubT (q : Img α) : Img α :=
  ⟨q.rows, q.cols, fun i j => ((2 : Nat) : α) * q.px i j + q.px i ((j + 1) % q.cols) + ((j + 1 : Nat) : α)⟩

end
end PyAbel
