/-
Model of the Abel transform of one term `r^m cos^n θ` on `[r_min, r_max)` as `abel.tools.polynomial.SPolynomial` computes it:
the cached antiderivatives `F(k, lim)` for every integer `k = n − m` (closed forms for k = 0…3, upward recursion above, downward
recursion `F(k) = (z fᵏ − k F(k+2)) / (1 − k)` for k < 0) at the lower limit (ρ = max(r, r_min)) and the upper limit (ρ = r_max),
and the product `r^m cos^n · 2 (F(n−m, 1) − F(n−m, 0))`.  For k ≥ 0 the antiderivatives are those of rBasex (Model/RbasexBasis.lean).
-/
import PyAbel.Model.RbasexBasis
namespace PyAbel.SPoly
open PyAbel.Distr (pow)

section
variable {α : Type} [Zero α] [One α] [Add α] [Sub α] [Mul α] [Div α] [NatCast α] [HasSqrt α] [HasLog α] [HasAcos α]

/-- `F(−n, lim)` at the limit with radius `rho`: `z f^{−n}` is written with `(ρ/r)ⁿ` -/
def Fneg (r rho : α) : Nat → α
  | 0 => RbxBasis.F r rho 1
  | 1 => (sqrt (rho * rho - r * r) * pow (rho / r) 1 + ((1 : Nat) : α) * RbxBasis.F r rho 2) / ((2 : Nat) : α)
  | n + 2 => (sqrt (rho * rho - r * r) * pow (rho / r) (n + 2) + ((n + 2 : Nat) : α) * Fneg r rho n) / ((n + 3 : Nat) : α)

/-- `F(k, lim)` for every integer `k` -/
def Fk (r rho : α) (k : Int) : α := if 0 ≤ k then RbxBasis.F r rho (k.toNat + 1) else Fneg r rho (-k).toNat

variable [LT α] [DecidableRel (α := α) (· < ·)]

/-- the term's transform at a point with cylindrical radius `0 < r < r_max` and direction cosine `cos` (2-D polar angle from the axis) -/
def term (m n : Nat) (rmin rmax r cos : α) : α :=
  let lo : α := if r < rmin then rmin else r
  pow r m * pow cos n * (((2 : Nat) : α) * (Fk r rmax ((n : Int) - m) - Fk r lo ((n : Int) - m)))

end
end PyAbel.SPoly
