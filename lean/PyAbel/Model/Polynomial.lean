/-
Model of the coefficient algebra in abel/tools/polynomial.py:
  * the shift / stretch transform of `Polynomial` and `SPolynomial`
    (powers of 1/s, then the Pascal ⊙ Toeplitz matrix of binomial coefficients times powers of −r₀);
  * `Angular`: products (np.convolve), cos/sin powers.
Coefficient vectors are functions `Nat → α` with an explicit length.
-/
import PyAbel.Model.Scalar
import PyAbel.Model.Representations
import PyAbel.Model.Distributions
namespace PyAbel.Poly
open PyAbel.Repr (choose)
open PyAbel.Distr (pow)

section
variable {α : Type} [Zero α] [One α] [Add α] [Sub α] [Mul α] [Div α] [NatCast α]

/-- `Σ_{k<N} c_k x^k` -/
def evalN (N : Nat) (c : Nat → α) (x : α) : α := sumRange N fun k => c k * pow x k

/-- coefficient of `r^k` after shift and stretch, as the code computes it:
    `c ← c · (1/s)^l`,  then  `c ← (P ⊙ T) c`  with `P[k,l] = C(l,k)`, `T[k,l] = (−r₀)^{l−k}` (upper triangular) -/
def ssCoeff (N : Nat) (c : Nat → α) (r0 s : α) (k : Nat) : α :=
  sumRange N fun l => if k ≤ l then ((choose l k : Nat) : α) * pow (0 - r0) (l - k) * (c l * pow (1 / s) l) else 0

/-- `np.convolve(a, b)[k]` for vectors of lengths `na`, `nb` -/
def convolve (na nb : Nat) (a b : Nat → α) (k : Nat) : α :=
  sumRange na fun i => if i ≤ k ∧ k - i < nb then a i * b (k - i) else 0

end

/-- `Angular.cossin(m, n).c[k]`: coefficients of `cos^m θ · sin^n θ = x^m (1 − x²)^{n/2}` in powers of x = cos θ -/
def cossinCoeff (m n k : Nat) : Int :=
  if m ≤ k ∧ (k - m) % 2 = 0 ∧ (k - m) / 2 ≤ n / 2 then
    (if ((k - m) / 2) % 2 = 0 then 1 else -1) * (choose (n / 2) ((k - m) / 2) : Int)
  else 0

end PyAbel.Poly
