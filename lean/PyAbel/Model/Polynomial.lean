/-
Model of the coefficient algebra in abel/tools/polynomial.py:
  * the shift / stretch transform of `Polynomial` and `SPolynomial`
    (powers of 1/s, then the Pascal ⊙ Toeplitz matrix of binomial coefficients times powers of −r₀);
  * `Angular`: products (np.convolve), cos/sin powers.
Coefficient vectors are functions `Nat → α` with an explicit length.
-/
import PyAbel.Model.Scalar
import PyAbel.Model.Representations
import PyAbel.Model.Distributions
namespace PyAbel.Poly
open PyAbel.Repr (choose)
open PyAbel.Distr (pow)

section
variable {α : Type} [Zero α] [One α] [Add α] [Sub α] [Mul α] [Div α] [NatCast α]

/-- `Σ_{k<N} c_k x^k` -/
def evalN (N : Nat) (c : Nat → α) (x : α) : α := sumRange N fun k => c k * pow x k

/-- coefficient of `r^k` after shift and stretch, as the code computes it:
    `c ← c · (1/s)^l`,  then  `c ← (P ⊙ T) c`  with `P[k,l] = C(l,k)`, `T[k,l] = (−r₀)^{l−k}` (upper triangular) -/
def ssCoeff (N : Nat) (c : Nat → α) (r0 s : α) (k : Nat) : α :=
  sumRange N fun l => if k ≤ l then ((choose l k : Nat) : α) * pow (0 - r0) (l - k) * (c l * pow (1 / s) l) else 0

/-- `np.convolve(a, b)[k]` for vectors of lengths `na`, `nb` -/
def convolve (na nb : Nat) (a b : Nat → α) (k : Nat) : α :=
  sumRange na fun i => if i ≤ k ∧ k - i < nb then a i * b (k - i) else 0

end

/-! `Polynomial.abel`: the closed-form one-sided integrals `a(k) = ∫ r^k dy` (coefficient recursion `C`, Horner sum in x²) -/
section
variable {α : Type} [Zero α] [One α] [Add α] [Sub α] [Mul α] [Div α] [NatCast α]

/-- `C[2j]` of `a(k)`: `C[0] = 1/(k+1)`, `C[k−m+2] = C[k−m]·m/(m−1)` for `m = k, k−2, … > 1` -/
def abelC (k : Nat) : Nat → α
  | 0 => 1 / ((k + 1 : Nat) : α)
  | j + 1 => abelC k j * ((k - 2 * j : Nat) : α) / ((k - 2 * j - 1 : Nat) : α)

/-- `a(k)` from `Dyr[p] = (y r^p)|_lo^up` and `Dlnry = ln(r + y)|_lo^up`:
    `Σ_j C[2j] x^{2j} Dyr[k−2j]`, plus `C[k−1] x^{k+1} Dlnry` for odd `k` -/
def abelA (k : Nat) (x2 : α) (D : Nat → α) (Dln : α) : α :=
  sumRange (k / 2 + 1) (fun j => abelC k j * pow x2 j * D (k - 2 * j))
    + (if k % 2 = 1 then abelC k (k / 2) * pow x2 (k / 2 + 1) * Dln else 0)

variable [LT α] [DecidableRel (α := α) (· < ·)] [HasSqrt α] [HasLog α]

def sqrt0 (t : α) : α := if 0 < t then sqrt t else 0
def ln0 (t : α) : α := if 0 < t then log t else 0

/-- `Polynomial(r, r_min, r_max, c).abel` at a sample `x < r_max` (coefficients already shifted/stretched):
    `Σ_k c_k · 2 a(k)` -/
def polyAbelAt (N : Nat) (c : Nat → α) (rmin rmax x : α) : α :=
  let x2 := x * x
  let yup := sqrt0 (rmax * rmax - x2)
  let ylo := sqrt0 (rmin * rmin - x2)
  let D := fun p => pow rmax p * yup - pow rmin p * ylo
  let Dln := ln0 (rmax + yup) - ln0 ((if rmin < x then x else rmin) + ylo)
  sumRange N fun k => c k * ((2 : Nat) : α) * abelA k x2 D Dln

end

/-- `Angular.cossin(m, n).c[k]`: coefficients of `cos^m θ · sin^n θ = x^m (1 − x²)^{n/2}` in powers of x = cos θ -/
def cossinCoeff (m n k : Nat) : Int :=
  if m ≤ k ∧ (k - m) % 2 = 0 ∧ (k - m) / 2 ≤ n / 2 then
    (if ((k - m) / 2) % 2 = 0 then 1 else -1) * (choose (n / 2) ((k - m) / 2) : Int)
  else 0

end PyAbel.Poly
