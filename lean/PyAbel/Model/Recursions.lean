/-
Executable models of the two transform methods that are *recursions / quadratures* rather than stored matrices:

  * `abel/hansenlaw.py`  hansenlaw_transform  — Hansen–Law 9-term state-space recursion (zero- and first-order hold,
                                                forward and inverse drive)
  * `abel/direct.py`     direct_transform (python backend) — trapezoidal quadrature of f/√(r²−y²) with the
                                                analytic correction of the singular cell, `abel.tools.math.gradient`

One image row at a time (both implementations treat rows independently); vectors are index functions.
The Hansen–Law constants `h`, `λ` are parameters: the driver takes them from `Gen/Tables.lean`, which the translator
regenerates from the source, so a changed constant flows into the model.
-/
import PyAbel.Model.Scalar
import PyAbel.Model.Dasch
import PyAbel.Model.Linalg

namespace PyAbel

class HasRpow (α : Type) where rpow : α → α → α
class HasCosh (α : Type) where cosh : α → α
class HasAcosh (α : Type) where acosh : α → α
class HasAsin (α : Type) where asin : α → α
instance : HasRpow Float := ⟨Float.pow⟩
instance : HasCosh Float := ⟨Float.cosh⟩
instance : HasAcosh Float := ⟨Float.acosh⟩
instance : HasAsin Float := ⟨Float.asin⟩

namespace HansenLaw

/-- the three coefficient tables of the recursion, indexed `[n][k]` (`n` = the running radius index, `k < K` the state) -/
structure Coef (α : Type) where
  phi : Nat → Nat → α
  B0 : Nat → Nat → α
  B1 : Nat → Nat → α

section recursion
variable {α : Type} [Zero α] [Add α] [Mul α]

/-- state vector after `t` steps of the loop `for indx, col in enumerate(n-1)` (step `t` has `n = cols-1-t`, `col = n-1`) -/
def state (c : Coef α) (cols : Nat) (d : Nat → α) : Nat → Nat → α
  | 0 => fun _ => 0
  | t + 1 => fun k =>
      let n := cols - 1 - t
      c.phi n k * state c cols d t k + c.B0 n k * d n + c.B1 n k * d (n - 1)

/-- `aim[:, col] = x.sum(axis=0)` for `1 ≤ col ≤ cols-2` -/
def aimRaw (c : Coef α) (K cols : Nat) (d : Nat → α) (col : Nat) : α :=
  sumRange K (state c cols d (cols - 1 - col))

/-- the recursion with the two edge columns copied from their neighbours; with fewer than 3 columns the loop fills nothing and the
    (zero-initialised, since repair F41) output stays zero -/
def recursion (c : Coef α) (K cols : Nat) (d : Nat → α) : Nat → α := fun j =>
  if cols < 3 then 0
  else if j = 0 then aimRaw c K cols d 1 else if j = cols - 1 then aimRaw c K cols d (cols - 2) else aimRaw c K cols d j

end recursion

section drive
variable {α : Type} [Zero α] [Add α] [Sub α] [Mul α] [Div α] [Neg α] [OfNat α 2] [HasPi α]

/-- `drive = -2*dr*np.pi*image` -/
def driveForward (dr : α) (im : Nat → α) : Nat → α := fun j => -(2 : α) * dr * HasPi.pi * im j

/-- zero-order hold: `drive[:, :-1] = (image[:, 1:] - image[:, :-1])/dr`, last column 0 -/
def driveInverse0 (cols : Nat) (dr : α) (im : Nat → α) : Nat → α := fun j =>
  if j + 1 < cols then (im (j + 1) - im j) / dr else 0

/-- first-order hold: `np.gradient(image, dr, axis=-1)` (central differences, one-sided at the ends) -/
def driveInverse1 (cols : Nat) (dr : α) (im : Nat → α) : Nat → α := fun j =>
  if j = 0 then (im 1 - im 0) / dr
  else if j + 1 = cols then (im j - im (j - 1)) / dr
  else (im (j + 1) - im (j - 1)) / ((2 : α) * dr)

end drive

section coefficients
variable {α : Type} [Zero α] [Add α] [Sub α] [Mul α] [Div α] [Neg α] [NatCast α] [OfNat α 1] [HasLog α] [HasRpow α]

/-- `(n-1)**a` -/
def npow (x : α) : Nat → α
  | 0 => 1
  | a + 1 => npow x a * x

/-- `I(n, lam, a)[:, k]`: the state-equation integral ∫ (ε/r)^(λ_k + a) dε over one cell -/
def cellIntegral (lam : Nat → α) (a n k : Nat) : α :=
  let ratio : α := (n : α) / ((n - 1 : Nat) : α)
  if a = 0 ∧ k = 0 then -(log ratio)
  else npow (((n - 1 : Nat) : α)) a * (1 - HasRpow.rpow ratio (lam k + (a : α))) / (lam k + (a : α))

/-- the coefficient tables exactly as `hansenlaw_transform` builds them (`a = 1` forward, `0` inverse) -/
def coef (h lam : Nat → α) (a : Nat) (hold1 : Bool) : Coef α :=
  let g0 := fun n k => cellIntegral lam a n k * h k
  let g1 := fun n k => cellIntegral lam (a + 1) n k * h k
  { phi := fun n k => HasRpow.rpow ((n : α) / ((n - 1 : Nat) : α)) (lam k)
    B0 := fun n k => if hold1 then g1 n k - g0 n k * ((n - 1 : Nat) : α) else g0 n k * 0
    B1 := fun n k => if hold1 then g0 n k * (n : α) - g1 n k else g0 n k }

end coefficients

section whole
variable {α : Type} [Zero α] [Add α] [Sub α] [Mul α] [Div α] [Neg α] [NatCast α] [OfNat α 1] [OfNat α 2]
  [HasLog α] [HasRpow α] [HasPi α]

/-- `hansenlaw_transform(row, dr, direction, hold_order)` for one row of `cols ≥ 2` samples -/
def transform (h lam : Nat → α) (K : Nat) (forward hold1 : Bool) (cols : Nat) (dr : α) (im : Nat → α) : Nat → α :=
  let d := if forward then driveForward dr im else if hold1 then driveInverse1 cols dr im else driveInverse0 cols dr im
  recursion (coef h lam (if forward then 1 else 0) hold1) K cols d

end whole
end HansenLaw

namespace Direct

section
variable {α : Type} [Zero α] [Add α] [Sub α] [Mul α] [Div α] [Neg α] [OfNat α 1] [OfNat α 2]

/-- `abel.tools.math.gradient(f)` with unit spacing (the `derivative` default of direct_transform) -/
def gradient (n : Nat) (f : Nat → α) : Nat → α := fun i =>
  if i = 0 then (f 1 - f 0) / 1
  else if i + 1 = n then (f i - f (i - 1)) / 1
  else (f (i + 1) - f (i - 1)) / 2

/-- `np.trapezoid(y, dx=dx)` over `n` samples -/
def trapz (n : Nat) (dx : α) (y : Nat → α) : α :=
  sumRange (n - 1) fun j => dx * (y (j + 1) + y j) / 2

end

section
variable {α : Type} [Zero α] [Add α] [Sub α] [Mul α] [Div α] [Neg α] [OfNat α 1] [OfNat α 2] [HasSqrt α]
  [HasCosh α] [HasAcosh α]

/-- `I_isqrt[i, j] = 1/√(r_j² − r_i²)` above the diagonal, 0 elsewhere -/
def isqrt (r : Nat → α) (i j : Nat) : α :=
  if i < j then 1 / sqrt (r j * r j - r i * r i) else 0

/-- `_pyabel_direct_integral(f, r, correction)` for one row, uniform grid with spacing `dx`;
    `zeroOrigin` is the branch `r[0] < r[1]*1e-8` -/
def integral (n : Nat) (r : Nat → α) (dx : α) (zeroOrigin corr : Bool) (f : Nat → α) : Nat → α := fun i =>
  let P := fun j => f j * isqrt r i j
  let main := trapz n dx P
  -- "correct for the extra triangle at the start of the integral": only j ∈ {i, i+1} survive the mask, and P i i = 0
  let tri := trapz n dx fun j => if j = i ∨ j = i + 1 then P j else 0
  let base := main - (1 / 2 : α) * tri
  if corr ∧ i + 1 < n then
    let fr := (f (i + 1) - f i) / (r (i + 1) - r i)
    let ratio : α := if zeroOrigin ∧ i = 0 then HasCosh.cosh 1 else r (i + 1) / r i
    base + (sqrt (r (i + 1) * r (i + 1) - r i * r i) * fr + HasAcosh.acosh ratio * (f i - fr * r i))
  else base

end

section
variable {α : Type} [Zero α] [Add α] [Sub α] [Mul α] [Div α] [Neg α] [NatCast α] [OfNat α 1] [OfNat α 2] [HasSqrt α]
  [HasCosh α] [HasAcosh α] [HasPi α]

/-- `direct_transform(row, dr=dr, direction, correction, backend='python')` for one row (`r = arange(n)*dr`) -/
def transform (forward corr : Bool) (n : Nat) (dr : α) (im : Nat → α) : Nat → α :=
  let r : Nat → α := fun k => (k : α) * dr
  let f : Nat → α := if forward then fun k => im k * ((2 : α) * r k)
                     else fun k => gradient n im k / dr * (-(1 : α) / HasPi.pi)
  integral n r dr true corr f

end
end Direct
namespace Bordas

/-
`abel/onion_bordas.py` onion_bordas_transform with `shift_grid=False` (the half-pixel resampling of `shift_grid=True` is
scipy.ndimage.shift, outside the model), one row of `w ≥ 2` samples.

The column loop peels the flipped row from the outside: pass `c` takes the pivot `rest[c−1]`, scales it by
`1/val1[idist, idist]` (`idist = w − c`) and subtracts `pivot·val1[i, idist]` from every pixel inside.  In the original pixel
order this is back substitution for the upper-triangular system `V y = row`, `V = val1`; the output is
`y_k / ((k + 1)·2 dr)` for `k ≥ 1`, and pixel 0 repeats pixel 1 (the first peeled column is dropped).  The model is written in
that form (so it runs in O(w²) and inherits the solve's theorems); the correspondence run compares it with the loop as coded.
-/
section
variable {α : Type} [Zero α] [Add α] [Sub α] [Mul α] [Div α] [NatCast α] [OfNat α 2] [HasAsin α]

/-- `_init_abel`: `val1[ii, jj] = asin((ii+1)/(jj+1)) − asin(ii/(jj+1))` for `jj ≥ ii`, else 0 -/
def val1 (ii jj : Nat) : α :=
  if ii ≤ jj then HasAsin.asin (((ii + 1 : Nat) : α) / ((jj + 1 : Nat) : α)) - HasAsin.asin ((ii : α) / ((jj + 1 : Nat) : α)) else 0

/-- one row, for any upper-triangular weight table `v` -/
def transformWith (v : Nat → Nat → α) (w : Nat) (dr : α) (im : Nat → α) : Nat → α := fun k =>
  let y := backSubst v im w
  let k' := if k = 0 then 1 else k
  y.getD k' 0 / ((k' + 1 : Nat) : α) / ((2 : α) * dr)

def transform (w : Nat) (dr : α) (im : Nat → α) : Nat → α := transformWith (val1 (α := α)) w dr im

end
end Bordas

end PyAbel
