/-
Dense linear algebra used by the method models: vectors are `Nat → α`, matrices `Nat → Nat → α`
(index functions with an explicit size), solutions of triangular systems are lists.
-/
import PyAbel.Model.Scalar
namespace PyAbel

section
variable {α : Type} [Zero α] [Add α] [Mul α]

/-- `(x · M)_j = Σ_{k<n} x_k M[k,j]` — `data.dot(M)` for one row -/
def vecMat (n : Nat) (x : Nat → α) (M : Nat → Nat → α) : Nat → α :=
  fun j => sumRange n fun k => x k * M k j

/-- `(M x)_i = Σ_{j<n} M[i,j] x_j` — `np.tensordot(IM, D, axes=(1,1))` for one row -/
def matVec (n : Nat) (M : Nat → Nat → α) (x : Nat → α) : Nat → α :=
  fun i => sumRange n fun j => M i j * x j

/-- `Σ_m f (s+m) * ys[m]` -/
def dotFrom (f : Nat → α) : Nat → List α → α
  | _, [] => 0
  | s, y :: ys => f s * y + dotFrom f (s + 1) ys

end

section
variable {α : Type} [Zero α] [Add α] [Sub α] [Mul α] [Div α]

/-- Back substitution for an upper-triangular `n × n` system `U y = d`.
    `backSubstAux U d n k = [y_{n-k}, …, y_{n-1}]`. -/
def backSubstAux (U : Nat → Nat → α) (d : Nat → α) (n : Nat) : Nat → List α
  | 0 => []
  | k + 1 =>
    let t := backSubstAux U d n k
    let i := n - (k + 1)
    ((d i - dotFrom (U i) (i + 1) t) / U i i) :: t

/-- `scipy.linalg.solve_triangular(U, d)` for upper-triangular `U` (as a list `[y_0 … y_{n-1}]`) -/
def backSubst (U : Nat → Nat → α) (d : Nat → α) (n : Nat) : List α := backSubstAux U d n n

end
end PyAbel
