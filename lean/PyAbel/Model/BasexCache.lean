/-
Model of the in-memory caches of `abel.basex.get_bs_cached` (module globals `_bs_prm`/`_bs`, `_trf_prm`/`_trf`, `_tri_prm`/`_tri`)
as a state machine.  `K` = basis key `[n, sigma]`, `P` = transform parameters `[reg, correction, dr]`; matrices are tags saying
what they were computed from.  The disk is outside this machine (C07's two-tier machine models it).
-/
namespace PyAbel.BxCache

variable {K P : Type} [DecidableEq K] [DecidableEq P]

structure St (K P : Type) where
  bsPrm : Option K
  trfPrm : Option P
  trf : Option (K × P)
  triPrm : Option P
  tri : Option (K × P)

def St.init : St K P := ⟨none, none, none, none, none⟩

structure Req (K P : Type) where
  k : K
  forward : Bool
  p : P

/-- one call of `get_bs_cached`; returns the tag of the matrix handed out -/
def call (s : St K P) (q : Req K P) : St K P × Option (K × P) :=
  -- `if _bs_prm == [n, sigma]` … `else` load / generate; `_trf_prm = None; _tri_prm = None`
  let s1 : St K P := if s.bsPrm = some q.k then s else { s with bsPrm := some q.k, trfPrm := none, triPrm := none }
  if q.forward then
    if s1.trfPrm = some q.p then (s1, s1.trf)
    else ({ s1 with trfPrm := some q.p, trf := some (q.k, q.p) }, some (q.k, q.p))
  else
    if s1.triPrm = some q.p then (s1, s1.tri)
    else ({ s1 with triPrm := some q.p, tri := some (q.k, q.p) }, some (q.k, q.p))

inductive Select | all | forward | inverse
deriving DecidableEq

def cleanup (s : St K P) : Select → St K P
  | .all => St.init
  | .forward => { s with trfPrm := none, trf := none }
  | .inverse => { s with triPrm := none, tri := none }

inductive Op (K P : Type)
  | call (q : Req K P)
  | cleanup (sel : Select)

def step (s : St K P) : Op K P → St K P
  | .call q => (call s q).1
  | .cleanup sel => cleanup s sel

def run (s : St K P) (ops : List (Op K P)) : St K P := ops.foldl step s

end PyAbel.BxCache
