/-
Model of the radial moving average of `Distributions.Results.Ibeta(window)` (abel/tools/vmi.py):
`scipy.ndimage.uniform_filter1d(x, window, axis=1, mode='nearest')` applied to the harmonics, then β = Pₙ/P₀ where the
averaged P₀ does not vanish (zero elsewhere).
-/
import PyAbel.Model.Scalar
namespace PyAbel.Window

/-- `mode='nearest'`: positions beyond the ends repeat the end samples -/
def clampIdx (n : Nat) (i : Int) : Nat := if i < 0 then 0 else if (n : Int) ≤ i then n - 1 else i.toNat

section
variable {α : Type} [Zero α] [Add α] [Div α] [NatCast α]

/-- `uniform_filter1d(x, w, mode='nearest')` at position `i` of `n` samples: the mean of the `w` samples at
`i − ⌊w/2⌋, …, i − ⌊w/2⌋ + w − 1` -/
def movavg (w n : Nat) (x : Nat → α) (i : Nat) : α :=
  sumRange w (fun k => x (clampIdx n ((i : Int) + (k : Int) - ((w / 2 : Nat) : Int)))) / (w : α)

variable [DecidableEq α]

/-- one anisotropy row of `Results.Ibeta(window)` from the harmonics `Pn`, `P0` -/
def beta (w n : Nat) (Pn P0 : Nat → α) (i : Nat) : α :=
  if w ≤ 1 then (if P0 i = 0 then 0 else Pn i / P0 i)
  else if movavg w n P0 i = 0 then 0 else movavg w n Pn i / movavg w n P0 i
end
end PyAbel.Window
