/-
Model of the representation changes in abel/tools/vmi.py : Distributions.Results
  cos^n  →  cos^n·sin^m   (`cossin`:  flipped upper Pascal matrix)
  cos^n  →  Legendre P_n  (`harmonics`: inverse of the matrix of Legendre coefficients)
  harmonics → I(r), β_n(r) (`Ibeta`)
Exact rational arithmetic (core `Rat`); no Mathlib.
-/
namespace PyAbel.Repr

/-- binomial coefficients (Pascal's rule) -/
def choose : Nat → Nat → Nat
  | _, 0 => 1
  | 0, _ + 1 => 0
  | n + 1, k + 1 => choose n k + choose n (k + 1)

/-- `np.flip(pascal(N, 'upper'))[i][j]` -/
def cossinMatrix (N i j : Nat) : Nat := if j ≤ i then choose (N - 1 - j) (i - j) else 0

/-- polynomials as coefficient lists, lowest power first -/
abbrev Poly := List Rat

def padd : Poly → Poly → Poly
  | [], q => q
  | p, [] => p
  | a :: p, b :: q => (a + b) :: padd p q

def pscale (c : Rat) (p : Poly) : Poly := p.map (c * ·)
def pshift (p : Poly) : Poly := 0 :: p          -- multiply by x

/-- Legendre polynomials by Bonnet's recurrence  (n+1) P_{n+1} = (2n+1) x P_n − n P_{n−1} -/
def legendre : Nat → Poly
  | 0 => [1]
  | 1 => [0, 1]
  | n + 2 =>
    let a := legendre (n + 1)
    let b := legendre n
    padd (pscale ((2 * (n + 1) + 1 : Nat) / (n + 2 : Nat)) (pshift a)) (pscale (-((n + 1 : Nat) : Rat) / (n + 2 : Nat)) b)

def coeff (p : Poly) (k : Nat) : Rat := p.getD k 0

/-- `CH[k][i]` of `harmonics()` before inversion: coefficient of cos^{power k} in the i-th Legendre polynomial used.
    odd = true: powers 0,1,2,…, polynomials P_0,P_1,…;  odd = false: powers 0,2,4,…, polynomials P_0,P_2,… -/
def legendreMatrix (odd : Bool) (terms : Nat) : List (List Rat) :=
  (List.range terms).map fun k => (List.range terms).map fun i =>
    if odd then coeff (legendre i) k else coeff (legendre (2 * i)) (2 * k)

def matMul (A B : List (List Rat)) : List (List Rat) :=
  A.map fun row => (List.range (B.headD []).length).map fun j =>
    (List.zipWith (fun a (brow : List Rat) => a * brow.getD j 0) row B).foldl (· + ·) 0

def identity (n : Nat) : List (List Rat) :=
  (List.range n).map fun i => (List.range n).map fun j => if i = j then 1 else 0

/-- inverse of a lower- or upper-triangular… general small matrix by Gauss–Jordan elimination without pivoting
    (the Legendre matrices are upper triangular with non-zero diagonal) -/
def inverse (A : List (List Rat)) : List (List Rat) :=
  let n := A.length
  let aug : List (List Rat) := (List.zipWith (· ++ ·) A (identity n))
  let step (M : List (List Rat)) (k : Nat) : List (List Rat) :=
    let pr := M.getD k []
    let pv := pr.getD k 0
    let prn := pr.map (· / pv)
    (List.range n).map fun i =>
      if i = k then prn else
        let r := M.getD i []
        let f := r.getD k 0
        List.zipWith (fun x y => x - f * y) r prn
  ((List.range n).foldl step aug).map (·.drop n)

/-- `harmonics()`'s conversion matrix, exactly -/
def harmonicsMatrix (odd : Bool) (terms : Nat) : List (List Rat) := inverse (legendreMatrix odd terms)

end PyAbel.Repr
