/-
Model of abel/rbasex.py : `_image` (synthesis of the output image from the cos^n radial distributions) and of
the geometry of the five `out` values of rbasex_transform.

All `out` images are windows on one function `F(y, x)` of the integer pixel offsets from the origin
(`y` up, `x` right): linear interpolation of each distribution between integer radii, zero beyond rmax,
times cosⁿθ (cos θ = y/r; for even-only, cos²θ = y²/r² and the powers are cos^{2n}).
-/
import PyAbel.Model.Distributions
namespace PyAbel.Rbasex
open PyAbel.Distr

inductive Out | same | full | fullUnique | fold | unfold
  deriving DecidableEq, Repr

section
variable {α : Type} [Zero α] [One α] [Add α] [Sub α] [Mul α]

/-- distribution `n` at integer radius `k`, zero beyond `rmax` (the appended zeros of `_image`) -/
def cz (rmax : Nat) (c : Nat → Nat → α) (n k : Nat) : α := if k ≤ rmax then c n k else 0

/-- Σ_n lerp(c_n)(r) · tⁿ  with `bin = ⌊r⌋`, `wu = r − ⌊r⌋` -/
def synth (rmax N : Nat) (c : Nat → Nat → α) (bin : Nat) (wu t : α) : α :=
  lsum ((List.range N).map fun n => ((1 - wu) * cz rmax c n bin + wu * cz rmax c n (bin + 1)) * pow t n)
end

/-- `F(y, x)` over Float -/
def F (rmax N : Nat) (odd : Bool) (c : Nat → Nat → Float) (y x : Int) : Float :=
  let xf := Float.ofInt x
  let yf := Float.ofInt y
  let r2 := xf * xf + yf * yf
  let r := Float.sqrt r2
  let bin := r.floor.toUInt64.toNat
  let t := if x == 0 && y == 0 then 0.0 else if odd then yf / r else (yf * yf) / r2
  synth rmax N c bin (r - r.floor) t

structure Frame where
  rows : Nat
  cols : Nat
  oy : Int        -- row index of the origin in this output
  ox : Int        -- column index of the origin
  deriving Repr, DecidableEq

/-- shape and origin position of each output kind (g: geometry of the input as computed by Distributions) -/
def frame (out : Out) (height width : Nat) (g : Geometry) : Frame :=
  let row' := height - 1 - g.row
  let col' := width - 1 - g.col
  let VER := Nat.max g.row row'
  let HOR := Nat.max g.col col'
  let _ := VER; let _ := HOR
  match out with
  | .same => ⟨height, width, g.row, g.col⟩
  | .full => ⟨2 * g.rmax + 1, 2 * g.rmax + 1, g.rmax, g.rmax⟩
  | .fullUnique => if g.odd then ⟨2 * g.rmax + 1, g.rmax + 1, g.rmax, 0⟩ else ⟨g.rmax + 1, g.rmax + 1, g.rmax, 0⟩
  | .fold => if g.odd then ⟨g.qheight, g.qwidth, g.y0, 0⟩ else ⟨g.qheight, g.qwidth, (g.qheight : Int) - 1, 0⟩
  | .unfold => if g.odd then ⟨g.qheight, 2 * g.qwidth - 1, g.y0, (g.qwidth : Int) - 1⟩
               else ⟨2 * g.qheight - 1, 2 * g.qwidth - 1, (g.qheight : Int) - 1, (g.qwidth : Int) - 1⟩

/-- pixel (i, j) of an output is `F` at the offset from that output's origin -/
def outPx (rmax N : Nat) (odd : Bool) (c : Nat → Nat → Float) (f : Frame) (i j : Nat) : Float :=
  F rmax N odd c (f.oy - (i : Int)) ((j : Int) - f.ox)

end PyAbel.Rbasex
